"""S pipeline: structural assumptions of the C11 reduction.

Neither verifier models unwinding, so C11 (panicking destructor) is decided by reduction: the state at every
call-out satisfies the call-out invariant, and the values that are still to be destroyed when a destructor
panics are owned by locals whose drop is the only remaining release.  The second half is a statement about
the *shape* of the teardown code; it is checked here, mechanically, on /repo's working tree.  An assumption
that no longer matches the code makes C11 UNDECIDED (exit 2) -- never a violation, never a silent pass."""
import os, re

import common
import extract


def _fn_body(lines, header_re, what):
    i, j = extract.find_item(lines, header_re, what)
    return [extract._strip_strings(l) for l in lines[i:j + 1]]


def _count(body, pat):
    return sum(1 for l in body if re.search(pat, l))


def _first(body, pat):
    for k, l in enumerate(body):
        if re.search(pat, l):
            return k
    return -1


def run_all(entries, log=print):
    out = {}
    try:
        lines = open(os.path.join(common.REPO, "src", "drop.rs")).read().split("\n")
        dc = _fn_body(lines, r"^unsafe fn drop_cycle<T>\(", "drop_cycle")
        du = _fn_body(lines, r"^unsafe fn drop_unreachable<T>\(", "drop_unreachable")
        dua = _fn_body(lines, r"^unsafe fn drop_unreachable_with_adoptions<T>\(", "drop_unreachable_with_adoptions")
        err = None
    except Exception as e:  # lost anchor
        dc = du = dua = []
        err = f"teardown functions not found: {e}"
    checks = {}

    def group_vec():
        # the members' values and tables are collected into one Vec and destroyed only by dropping that Vec whole
        if _count(dc, r"let mut inners = vec!\[\];") != 1:
            return "no single `let mut inners = vec![];`"
        if _count(dc, r"inners\.push\(\(inner\.assume_init\(\), links\.assume_init\(\)\)\);") != 1:
            return "values are not moved into `inners` by one push of (value, table)"
        if _count(dc, r"^\s*drop\(inners\);") != 1:
            return "`drop(inners);` not found exactly once"
        uses = _count(dc, r"\binners\b")
        if uses != 3:
            return f"`inners` is used {uses} times (expected: declaration, push, drop): values may be destroyed piecemeal"
        if _count(dc, r"drop_in_place|ManuallyDrop|mem::forget|\.pop\(\)|\.drain\(") != 0:
            return "explicit per-element destruction / forgetting inside drop_cycle"
        return None

    def group_release_after():
        # no allocation is released and no implicit weak dropped before the Vec of values has been dropped
        d = _first(dc, r"^\s*drop\(inners\);")
        w = _first(dc, r"\.dec_weak\(\)")
        f = _first(dc, r"Global\.deallocate\(")
        if d < 0 or w < 0 or f < 0:
            return "drop(inners) / dec_weak / deallocate not all present"
        if not (d < w < f):
            return "the release loop does not come after `drop(inners)`"
        if _count(dc, r"\bWeak\b") != 0:
            return "Weak guards inside drop_cycle (their drop order on unwind is not covered by the reduction)"
        return None

    def single(body, name):
        def f():
            m = _first(body, r"\.make_uninit\(\)")
            v = _first(body, r"drop\(inner\.assume_init\(\)\);")
            r = _first(body, r"mem::replace\(&mut \(\*rcbox\)\.value")
            w = _first(body, r"\.dec_weak\(\)")
            if min(m, v, r, w) < 0:
                return f"{name}: sentinel / move-out / value drop / dec_weak not all present"
            if not (m < r < v < w):
                return f"{name}: order is not sentinel, move-out, value drop, implicit-weak release"
            return None
        return f

    checks["S.c11.group_values_owned_by_one_vec_dropped_whole"] = group_vec
    checks["S.c11.group_release_after_values"] = group_release_after
    checks["S.c11.plain_path_sentinel_moveout_drop_release_order"] = single(du, "drop_unreachable")
    checks["S.c11.zero_count_path_sentinel_moveout_drop_release_order"] = single(dua, "drop_unreachable_with_adoptions")
    for e in entries:
        oid = e["id"]
        if err:
            st, why = "undecided", err
        else:
            why = checks[oid]()
            st = "discharged" if why is None else "undecided"
        out[oid] = {"obligations": {oid: {"status": st, "reason": ("structural assumption of the C11 reduction no longer matches the code: " + why) if why else "", "time_s": 0}}, "cached": False,
                    "cmd": "lib/struct_run.py (pattern check of src/drop.rs)"}
        log(f"  [shape] {oid:<62} {'ok' if st == 'discharged' else 'UNDECIDED ' + (why or '')}")
    return out

"""K pipeline: run Kani harnesses on a scratch copy of the real crate and classify the outcome of
every labelled contract clause (obligation)."""
import os, re, shutil, threading, time
from concurrent.futures import ThreadPoolExecutor

from common import VERIF, ENV, run, cache_get, cache_put, repo_hash, machinery_hash

LABEL_RE = re.compile(r'"((?:U\d+|K|X)\.[A-Za-z0-9_.\-]+)"')
CLASSIFIER_VERSION = "k3"  # bump when parse_output/classify change meaning
BOUND_MARKERS = ("unwinding assertion", "vmap capacity exceeded", "recursion unwinding")


def harness_sources():
    """name -> (file, body text) for every #[kani::proof] fn under kani/verif"""
    out = {}
    d = os.path.join(VERIF, "kani", "verif")
    for fn in sorted(os.listdir(d)):
        if not fn.endswith(".rs"):
            continue
        text = open(os.path.join(d, fn)).read()
        for m in re.finditer(r"#\[kani::proof\]", text):
            m2 = re.compile(r"fn\s+([A-Za-z0-9_]+)\s*\(").search(text, m.end())
            if not m2:
                continue
            name = m2.group(1)
            i = text.index("{", m2.end())
            depth, j = 0, i
            while True:
                c = text[j]
                if c == "{":
                    depth += 1
                elif c == "}":
                    depth -= 1
                    if depth == 0:
                        break
                j += 1
            attrs = text[m.start():m2.start()]
            out[name] = {"file": fn, "body": text[i:j + 1], "attrs": attrs, "whole": text[m.start():j + 1]}
    return out


SHARED_SUPPORT = ("mod.rs", "util.rs", "vmap.rs", "k_link.rs")


def support_hash(srcs, own_file=None):
    """hash of everything a harness can depend on besides its own body: the shared verification sources
    and its own file, each with the bodies of the #[kani::proof] functions removed (harnesses of other
    k_*.rs files are independent modules), and the classifier version"""
    import hashlib
    h = hashlib.sha256()
    d = os.path.join(VERIF, "kani", "verif")
    for fn in sorted(os.listdir(d)):
        if not fn.endswith(".rs") or not (fn in SHARED_SUPPORT or fn == own_file):
            continue
        text = open(os.path.join(d, fn)).read()
        for name, s in srcs.items():
            if s["file"] == fn:
                text = text.replace(s["whole"], "")  # harnesses are independent of each other
        text = re.sub(r"\n\s*(///[^\n]*\n\s*)*\n", "\n", text)
        h.update(fn.encode() + b"\0" + text.encode())
    h.update(CLASSIFIER_VERSION.encode())
    return h.hexdigest()


def labels_of(src):
    seen = []
    for l in LABEL_RE.findall(src["body"]):
        if l not in seen:
            seen.append(l)
    return seen


def prepare_crate(scratch):
    """copy /repo's working tree and add the verification-only sources (src/verif/)"""
    crate = scratch.copy_repo("crate")
    dst = os.path.join(crate, "src", "verif")
    if os.path.exists(dst):
        shutil.rmtree(dst)
    shutil.copytree(os.path.join(VERIF, "kani", "verif"), dst)
    return crate


def parse_output(out):
    res = {"status": None, "failed": [], "covers": None, "time": None, "checks": None}
    m = re.search(r"\*\* (\d+) of (\d+) failed", out)
    if m:
        res["checks"] = int(m.group(2))
    m = re.search(r"\*\* (\d+) of (\d+) cover properties satisfied(?: \((\d+) unreachable\))?", out)
    if m:
        res["covers"] = {"satisfied": int(m.group(1)), "total": int(m.group(2)), "unreachable": int(m.group(3) or 0)}
    for m in re.finditer(r"Failed Checks: (.*)\n\s*File: \"([^\"]*)\", line (\d+), in (.*)", out):
        res["failed"].append({"desc": m.group(1).strip(), "file": m.group(2), "line": int(m.group(3)), "fn": m.group(4).strip()})
    for m in re.finditer(r"Failed Checks: (.*)\n(?!\s*File:)", out):
        res["failed"].append({"desc": m.group(1).strip(), "file": "", "line": 0, "fn": ""})
    m = re.search(r"Verification Time: ([0-9.]+)s", out)
    if m:
        res["time"] = float(m.group(1))
    if "VERIFICATION:- SUCCESSFUL" in out:
        res["status"] = "success"
    elif "VERIFICATION:- FAILED" in out:
        res["status"] = "failed"
    return res


def classify(entry, src, rc, out, secs, timed_out):
    """-> dict(obligations: {label: discharged|failed|undecided}, detail...)"""
    primary = list(entry.get("labels") or labels_of(src))
    extras = [l for l in entry.get("labels_extra", []) if l not in primary]
    labels = primary + extras
    safety = f"K.{entry.get('id', entry['harness'])}.safety"
    p = parse_output(out)
    obl = {l: "discharged" for l in labels}
    obl[safety] = "discharged"
    reason = ""
    low = out.lower()
    crashed = "cbmc failed with status" in low or "cbmc crashed" in low
    oom = crashed or ("out of memory" in low) or ("std::bad_alloc" in low) or ("memory exhausted" in low) or ("killed" in low and p["status"] is None)
    if timed_out or oom or p["status"] is None:
        why = "timeout" if timed_out else ("CBMC crashed / out of memory" if oom else "no verdict (tool error)")
        return {"obligations": {k: "undecided" for k in obl}, "reason": why, "parsed": p, "tail": out[-3000:]}
    expect = entry.get("expect", "success")
    if p["status"] == "failed" and not p["failed"]:
        # Kani prints VERIFICATION:- FAILED when CBMC is killed (memory limit) or exits abnormally
        return {"obligations": {k: "undecided" for k in obl}, "reason": "failed without any failed check (CBMC killed or crashed)", "parsed": p, "tail": out[-3000:]}
    bound_hit = [f for f in p["failed"] if any(b in f["desc"] for b in BOUND_MARKERS)]
    if bound_hit:
        return {"obligations": {k: "undecided" for k in obl}, "reason": "bound exceeded: " + bound_hit[0]["desc"], "parsed": p, "tail": out[-3000:]}
    if expect == "success":
        if p["status"] == "success":
            pass
        else:
            for f in p["failed"]:
                hit = [l for l in labels if l in f["desc"]]
                if hit:
                    for l in hit:
                        obl[l] = "failed"
                else:
                    obl[safety] = "failed"
            if not p["failed"]:
                obl[safety] = "failed"
            reason = "; ".join(sorted(set(f"{f['desc']} @ {f['file']}:{f['line']}" for f in p["failed"])))[:2000]
    elif expect == "abort_only":
        # the call must not return: every failed check is the abort intrinsic, the post-call cover is unreachable
        non_abort = [f for f in p["failed"] if "reached intrinsic::abort" not in f["desc"]]
        cov = p["covers"] or {"satisfied": 0, "total": 0, "unreachable": 0}
        ok = p["status"] == "failed" and p["failed"] and not non_abort and cov["total"] >= 1 and cov["satisfied"] == 0
        if not ok:
            for l in primary:
                obl[l] = "failed"
            if non_abort:
                obl[safety] = "failed"
            reason = f"expected abort on every path: status={p['status']} covers={cov} other_failures={[f['desc'] for f in non_abort][:5]}"
    elif expect == "canary":
        # deliberately false claim: it must be refuted, and its reachability cover must be satisfied
        hit = [f for f in p["failed"] if any(l in f["desc"] for l in labels)]
        cov = p["covers"] or {"satisfied": 0, "total": 0}
        if not (p["status"] == "failed" and hit and len(hit) == len(p["failed"]) and cov["satisfied"] >= 1):
            for l in primary:
                obl[l] = "failed"
            reason = f"canary not refuted as expected: status={p['status']} failed={[f['desc'] for f in p['failed']][:4]} covers={cov}"
    elif expect == "released":
        # the harness ends with a probe read of an allocation that must have been released: CBMC has to refute
        # exactly that read ("deallocated dynamic object") inside the harness file and nothing else
        probe = [f for f in p["failed"] if "deallocated dynamic object" in f["desc"]]
        other = [f for f in p["failed"] if not (f["desc"].startswith("dereference failure") and "/verif/" in f["file"])]
        if not (p["status"] == "failed" and probe and not other):
            for l in primary:
                obl[l] = "failed"
            named = False
            for f in other:
                hit = [l for l in labels if l in f["desc"]]
                for l in hit:
                    obl[l] = "failed"
                    named = True
            if other and not named:
                obl[safety] = "failed"
            reason = f"expected the probe read to hit a released allocation: status={p['status']} probe_hits={len(probe)} other_failures={[f['desc'] for f in other][:5]}"
    else:
        raise ValueError(expect)
    bad = any(v != "discharged" for v in obl.values())
    if bad and not reason:
        reason = "verification failed without a named check: " + " | ".join(l.strip() for l in out.splitlines() if "FAIL" in l or "error" in l.lower())[:600]
    return {"obligations": obl, "reason": reason, "parsed": p, "tail": out[-3000:] if bad else ""}


def run_harness(crate, tdir, entry, src):
    name = entry["harness"]
    full = f"{entry['module']}::{name}"
    cmd = ["/usr/bin/time", "-f", "MAXRSS_KB=%M", "cargo", "kani", "--exact", "--harness", full, "--target-dir", tdir, "--output-format", "terse",
           "-Z", "stubbing", "-Z", "function-contracts"]
    for f in entry.get("flags", []):
        cmd.append(f)
    # CBMC's symbolic execution only propagates constants through arrays up to this many elements; heap
    # objects are byte arrays, so with the default (64) every loop whose exit depends on heap contents is
    # unrolled to the unwind bound.  512 covers every object the harnesses allocate.  Must come last.
    # It is opt-in per harness: with many symbolic values (the Probe-payload harnesses) it costs more memory.
    if entry.get("field_sensitivity"):
        cmd += ["-Z", "unstable-options", "--cbmc-args", "--max-field-sensitivity-array-size", str(entry["field_sensitivity"])]
    env = dict(ENV)
    rustflags = entry.get("cfg", [])
    if rustflags:
        env["RUSTFLAGS"] = " ".join(f"--cfg {c}" for c in rustflags)
    rc, out, secs, to = run(cmd, cwd=crate, timeout=entry.get("timeout", 300), mem_gb=entry.get("mem_gb", 6) * 1.25 + 2, env=env)
    r = classify(entry, src, rc, out, secs, to)
    m = re.search(r"MAXRSS_KB=(\d+)", out)
    r["max_rss_gb"] = round(int(m.group(1)) / 1e6, 2) if m else None
    r["wall_s"] = round(secs, 2)
    r["cmd"] = " ".join(cmd)
    shutil.rmtree(tdir, ignore_errors=True)
    return r


def run_all(scratch, entries, jobs=14, mem_budget_gb=None, log=print):
    mem_budget_gb = mem_budget_gb or int(os.environ.get("VERIF_MEM_BUDGET_GB", "54"))
    """entries: registry records.  Returns {harness: result}; uses the content-addressed cache."""
    srcs = harness_sources()
    rh = repo_hash()
    results, todo = {}, []
    for e in entries:
        if e["harness"] not in srcs:
            results[e.get("id", e["harness"])] = {"obligations": {f"K.{e.get('id', e['harness'])}.safety": "undecided"}, "reason": "harness source not found (lost anchor)", "wall_s": 0, "cached": False}
            continue
        import hashlib, json
        src = srcs[e["harness"]]
        sem = {k: e.get(k) for k in ("harness", "module", "id", "cfg", "flags", "field_sensitivity", "expect", "labels", "labels_extra")}
        key = hashlib.sha256((rh + support_hash(srcs, src["file"]) + json.dumps(sem, sort_keys=True) + src["body"] + src["attrs"]).encode()).hexdigest()
        c = cache_get(key)
        if c is not None and not any(v == "undecided" for v in c["obligations"].values()):
            c["cached"] = True
            results[e.get("id", e["harness"])] = c
        else:
            todo.append((e, key))
    if not todo:
        return results
    crate = prepare_crate(scratch)
    # Serialise the first build so that dependencies are compiled once; every harness then gets its own
    # target dir seeded from it.
    seed_t = os.path.join(scratch.dir, "t-seed")
    lock = threading.Lock()
    budget = {"free": mem_budget_gb}
    cv = threading.Condition(lock)

    def work(item):
        e, key = item
        need = min(e.get("mem_gb", 6), mem_budget_gb)
        with cv:
            while budget["free"] < need:
                cv.wait()
            budget["free"] -= need
        try:
            tdir = os.path.join(scratch.dir, "t-" + e.get("id", e["harness"]).replace("@", "_"))
            r = run_harness(crate, tdir, e, srcs[e["harness"]])
        finally:
            with cv:
                budget["free"] += need
                cv.notify_all()
        r["cached"] = False
        if not any(v == "undecided" for v in r["obligations"].values()):
            cache_put(key, r)
        st = "ok" if all(v == "discharged" for v in r["obligations"].values()) else ("UNDECIDED " + r.get("reason", "") if any(v == "undecided" for v in r["obligations"].values()) else "FAILED " + r.get("reason", "")[:200])
        log(f"  [kani] {e.get('id', e['harness']):<40} {r['wall_s']:>7.1f}s {str(r.get('max_rss_gb')) + 'GB':>8}  {st}")
        return e.get("id", e["harness"]), r

    todo.sort(key=lambda t: -t[0].get("timeout", 300))
    with ThreadPoolExecutor(jobs) as ex:
        for name, r in ex.map(work, todo):
            results[name] = r
    # Escalation: a harness that died of memory (typical for changed code that explores more paths) is
    # re-run once, alone, with most of the machine's memory, so that the change gets a verdict instead of
    # "undecided".  Never happens on a tree where every harness fits its declared memory.
    big = int(os.environ.get("VERIF_MEM_RETRY_GB", "40"))
    for e, key in todo:
        name = e.get("id", e["harness"])
        r = results.get(name)
        if r and any(v == "undecided" for v in r["obligations"].values()) and ("memory" in r.get("reason", "") or "killed" in r.get("reason", "")) and e.get("mem_gb", 6) < big:
            log(f"  [kani] {name}: retrying alone with {big} GB")
            e2 = dict(e, mem_gb=big, timeout=max(e.get("timeout", 300), 2400))
            name2, r2 = work((e2, key))
            r2["retried_with_gb"] = big
            results[name] = r2
    return results


def counterexample(scratch, entry, timeout=600):
    """re-runs one failed harness with Kani's concrete playback and returns the concrete values CBMC chose for
    the harness's symbolic inputs (in the order of the kani::any() calls), or None"""
    crate = os.path.join(scratch.dir, "crate")
    if not os.path.isdir(crate):
        crate = prepare_crate(scratch)
    full = f"{entry['module']}::{entry['harness']}"
    tdir = os.path.join(scratch.dir, "t-cex-" + entry["harness"])
    cmd = ["cargo", "kani", "--exact", "--harness", full, "--target-dir", tdir, "--output-format", "terse", "-Z", "stubbing", "-Z", "function-contracts",
           "-Z", "concrete-playback", "--concrete-playback=print"]
    if entry.get("field_sensitivity"):
        cmd += ["-Z", "unstable-options", "--cbmc-args", "--max-field-sensitivity-array-size", str(entry["field_sensitivity"])]
    env = dict(ENV)
    if entry.get("cfg"):
        env["RUSTFLAGS"] = " ".join(f"--cfg {c}" for c in entry["cfg"])
    rc, out, secs, to = run(cmd, cwd=crate, timeout=timeout, mem_gb=entry.get("mem_gb", 6) * 1.25 + 2, env=env)
    shutil.rmtree(tdir, ignore_errors=True)
    m = re.search(r"Concrete playback unit test for[^\n]*\n```\n(.*?)```", out, re.S)
    if not m:
        return None
    text = m.group(1)
    check = re.search(r'Check for `[^`]*`: "([^"]*)"', text)
    vals = re.findall(r"^\s*// (.+)$\n\s*vec!\[", text, re.M)
    return {"harness": entry["harness"], "refuted_check": check.group(1) if check else None,
            "symbolic_inputs_in_order_of_kani_any_calls": vals, "kani_playback_test": text[-3000:]}

"""Shared plumbing for the /verif driver: hashing, scratch copies, subprocess control."""
import hashlib, json, os, resource, shutil, signal, subprocess, sys, tempfile, time

VERIF = os.path.dirname(os.path.dirname(os.path.abspath(__file__)))
REPO = os.environ.get("VERIF_REPO", "/repo")
CACHE = os.path.join(VERIF, ".cache")
SCRATCH_ROOT = os.environ.get("VERIF_SCRATCH", "/var/tmp/cactusref-verif")

ENV = dict(os.environ)
ENV.update({"CARGO_NET_OFFLINE": "true", "RUST_BACKTRACE": "0", "CARGO_TERM_COLOR": "never"})


def sha_files(paths):
    h = hashlib.sha256()
    for p in sorted(paths):
        h.update(p.encode())
        h.update(b"\0")
        try:
            with open(p, "rb") as f:
                h.update(f.read())
        except OSError:
            h.update(b"<missing>")
        h.update(b"\0")
    return h.hexdigest()


def tree_files(root, skip=("target", ".git", ".cache", "evidence", "work", "__pycache__", "seeded", "node_modules")):
    out = []
    for d, dirs, files in os.walk(root):
        dirs[:] = [x for x in dirs if x not in skip]
        for f in files:
            if f.endswith(".pyc"):
                continue
            out.append(os.path.join(d, f))
    return out


def repo_hash():
    """hash of everything in /repo's working tree that can influence a build"""
    files = [f for f in tree_files(REPO) if f.startswith(os.path.join(REPO, "src")) or os.path.basename(f) in ("Cargo.toml", "Cargo.lock", "rust-toolchain", "build.rs")]
    return sha_files(files)


def machinery_hash():
    files = []
    for sub in ("bin", "lib", "kani", "verus", "contracts"):
        files += tree_files(os.path.join(VERIF, sub))
    return sha_files(files)


def limit_mem(gb):
    def f():
        os.setsid()
        if gb:
            b = int(gb * (1 << 30))
            resource.setrlimit(resource.RLIMIT_AS, (b, b))
    return f


_CHILDREN = set()


def _kill_children(*_a):
    for pid in list(_CHILDREN):
        try:
            os.killpg(pid, signal.SIGKILL)
        except (ProcessLookupError, PermissionError):
            pass
    if _a:
        sys.exit(130)


import atexit
atexit.register(_kill_children)
for _sig in (signal.SIGTERM, signal.SIGINT, signal.SIGHUP):
    try:
        signal.signal(_sig, _kill_children)
    except ValueError:
        pass


def run(cmd, cwd=None, timeout=None, mem_gb=None, env=None):
    """returns (rc, stdout+stderr, seconds, timed_out)"""
    t0 = time.time()
    p = subprocess.Popen(cmd, cwd=cwd, stdout=subprocess.PIPE, stderr=subprocess.STDOUT, text=True,
                         env=env or ENV, preexec_fn=limit_mem(mem_gb))
    _CHILDREN.add(p.pid)
    try:
        out, _ = p.communicate(timeout=timeout)
        _CHILDREN.discard(p.pid)
        # make sure nothing of the process group survives (cargo-kani leaves cbmc behind when killed)
        try:
            os.killpg(p.pid, signal.SIGKILL)
        except (ProcessLookupError, PermissionError):
            pass
        return p.returncode, out, time.time() - t0, False
    except subprocess.TimeoutExpired:
        try:
            os.killpg(p.pid, signal.SIGKILL)
        except ProcessLookupError:
            pass
        out, _ = p.communicate()
        return -9, out or "", time.time() - t0, True


class Scratch:
    """A scratch copy of /repo's working tree outside /repo and /verif; removed at exit with its build output."""

    def __init__(self, tag):
        os.makedirs(SCRATCH_ROOT, exist_ok=True)
        self.dir = tempfile.mkdtemp(prefix=f"{tag}-", dir=SCRATCH_ROOT)

    def copy_repo(self, name="crate"):
        dst = os.path.join(self.dir, name)
        shutil.copytree(REPO, dst, ignore=shutil.ignore_patterns("target", ".git", "node_modules"), symlinks=True)
        return dst

    def cleanup(self):
        shutil.rmtree(self.dir, ignore_errors=True)

    def __enter__(self):
        return self

    def __exit__(self, *a):
        self.cleanup()


def cache_get(key):
    if os.environ.get("VERIF_NO_CACHE"):
        return None
    p = os.path.join(CACHE, "results", key + ".json")
    try:
        with open(p) as f:
            return json.load(f)
    except (OSError, ValueError):
        return None


def cache_put(key, val):
    d = os.path.join(CACHE, "results")
    os.makedirs(d, exist_ok=True)
    tmp = os.path.join(d, key + ".tmp%d" % os.getpid())
    with open(tmp, "w") as f:
        json.dump(val, f)
    os.replace(tmp, os.path.join(d, key + ".json"))


def load_json(path):
    with open(path) as f:
        return json.load(f)

"""Turns obligation results into the verdict, the VIOLATION / KNOWN-FINDING lines, the replay file and the
evidence file."""
import json, os, re, time

import common
from common import VERIF, load_json

ASSUMPTIONS_COMMON = [
    "Kani 0.68 / CBMC 6.11 and Verus 0.2026.09.13 / Z3 are trusted, as are rustc's MIR and Kani's models of the allocator and intrinsics",
    "under cfg(kani) the hashbrown tables are replaced by verif::vmap, a bounded association array with the same API subset (assumed contract on the dependency; hashbrown and FxHasher themselves are unverified)",
    "single-threaded execution (Rc/Weak are !Send and !Sync by construction)",
    "generic code is checked at the payload types the harnesses instantiate (u8, and probe types with a Drop impl)",
]


def scan_trusted_base():
    """mechanical scan for every assumption-introducing construct in the verification sources: each Kani stub
    (callee replaced by its contract or by a recorder), each trusted Verus specification or axiom, and counts
    of `kani::assume` (harness preconditions)"""
    out = []
    d = os.path.join(VERIF, "kani", "verif")
    for fn in sorted(os.listdir(d)):
        if not fn.endswith(".rs"):
            continue
        text = open(os.path.join(d, fn)).read()
        stubs = sorted(set(re.findall(r"#\[kani::stub\(\s*([^,]+?)\s*,\s*([^)]+?)\s*\)\]", text)))
        for tgt, rep in stubs:
            out.append(f"kani/verif/{fn}: kani::stub {tgt} -> {rep}")
        n = len(re.findall(r"kani::assume\(", text))
        if n:
            out.append(f"kani/verif/{fn}: {n} x kani::assume (harness preconditions and stand-in bound guards)")
    d = os.path.join(VERIF, "verus")
    for fn in sorted(os.listdir(d)):
        text = open(os.path.join(d, fn)).read()
        for m in re.finditer(r"assume_specification<[^\[]*\[\s*([^\]]+?)\s*\]", text):
            out.append(f"verus/{fn}: assume_specification {m.group(1)} (trusted std specification)")
        for m in re.finditer(r"#\[verifier::external_body\]\s*pub proof fn (\w+)", text):
            out.append(f"verus/{fn}: external_body axiom {m.group(1)}")
        n = len(re.findall(r"\badmit\(\)|(?<![:\w])assume\(", text))
        if n:
            out.append(f"verus/{fn}: {n} x assume/admit")
    ann = os.path.join(VERIF, "contracts", "verus", "annotations.py")
    text = open(ann).read()
    n = len(re.findall(r"\badmit\(\)|(?<![:\w_])assume\(|external_body", text))
    out.append(f"contracts/verus/annotations.py: {n} x assume/admit/external_body in spliced contract text")
    out.append("verus/mheap.rs: mutable heap shim (verified HashMap code) standing for RcBox.links: RefCell<Links> borrow/borrow_mut modelled as taking the table out and putting it back; MaybeUninit access and pointer validity become has(p)")
    out.append("verus/heap.rs: read-only heap shim standing for NonNull<RcBox>::as_ref + RefCell::borrow on the trace path")
    out.append("kani/verif/vmap.rs: table stand-in for hashbrown under cfg(kani) (assumed contract on the dependency)")
    out.append("verus: vstd's specifications of std::collections::HashMap/HashSet/Vec/Option and of hash-map iteration")
    return out


def contract_texts():
    """obligation id -> contract clause text: the requires/ensures spliced for Verus functions, the asserted
    expression for labelled Kani clauses"""
    out = {}
    try:
        import extract
        LINK, CYCLE, _, ADOPT, DROP = extract.load_annotations(VERIF)
        for k, v in list(LINK.items()) + list(CYCLE.items()) + list(ADOPT.items()) + list(DROP.items()):
            if isinstance(v, dict) and v.get("spec"):
                out["V." + k] = " ".join(v["spec"].split())
        out["V.drop_unreachable_with_adoptions.unlink_prefix"] = out.get("V.drop_unreachable_with_adoptions", "")
    except Exception:
        pass
    try:
        d = os.path.join(VERIF, "verus")
        for fn in ("lemmas.rs", "lemmas_trace.rs"):
            text = open(os.path.join(d, fn)).read()
            for m in re.finditer(r"pub proof fn (\w+)\(([^)]*)\)\s*((?:requires|ensures)[\s\S]*?)\n\{", text):
                spec = " ".join(m.group(3).split())
                out["L." + m.group(1)] = spec
                out["V." + m.group(1)] = spec
    except Exception:
        pass
    try:
        d = os.path.join(VERIF, "kani", "verif")
        for fn in os.listdir(d):
            if fn.endswith(".rs"):
                text = open(os.path.join(d, fn)).read()
                for m in re.finditer(r'kani::assert\(\s*([\s\S]*?),\s*"((?:U\d+|X)\.[A-Za-z0-9_.\-]+)"', text):
                    out.setdefault(m.group(2), " ".join(m.group(1).split()))
    except Exception:
        pass
    return out


def fn_spans(reg, units):
    """functions under contract with a hash of their file in the working tree"""
    out = []
    for u in units:
        for f in reg["units"].get(u, {}).get("functions", []):
            path = f.split("::")[0]
            full = os.path.join(common.REPO, path)
            out.append({"unit": u, "function": f, "file_sha256": common.sha_files([full])[:16] if os.path.exists(full) else "missing"})
    return out


def finish(prop, pdef, tier, seed, reg, kentries, kres, ventries, vres, wall, scratch, log):
    obligations = []  # dicts: id, backend, kind(complete|unbounded|bounded), status, unit, harness, time, cached, bounds, reason
    for e in kentries:
        r = kres.get(e.get("id", e["harness"]))
        if r is None:
            continue
        suffix = ("@" + e["id"].split("@", 1)[1]) if "@" in e.get("id", "") else ""
        for oid, st in r["obligations"].items():
            if suffix and not oid.endswith(suffix) and not oid.startswith("K."):
                oid = oid + suffix
            obligations.append({"id": oid, "backend": "kani/cbmc", "kind": e.get("kind", "complete"), "bounds": e.get("bounds"), "status": st, "unit": e["unit"],
                                "via": e.get("id", e["harness"]), "time_s": r.get("wall_s", 0), "max_rss_gb": r.get("max_rss_gb"), "cached": r.get("cached", False), "reason": r.get("reason", ""), "tail": r.get("tail", ""), "cmd": r.get("cmd", "")})
    for e in ventries:
        r = vres.get(e["id"])
        if r is None:
            continue
        for oid, st in r["obligations"].items():
            obligations.append({"id": oid, "backend": "shape-check" if e.get("kind") == "structural" else "verus/z3", "kind": e.get("kind", "unbounded"), "bounds": None, "status": st["status"], "unit": e["unit"],
                                "via": e["id"], "time_s": st.get("time_s", 0), "cached": r.get("cached", False), "reason": st.get("reason", ""), "tail": st.get("detail", ""), "cmd": r.get("cmd", "")})

    failed = [o for o in obligations if o["status"] == "failed"]
    undecided = [o for o in obligations if o["status"] == "undecided"]

    # ---- known findings
    kf = load_json(os.path.join(VERIF, "known_findings.json")) if os.path.exists(os.path.join(VERIF, "known_findings.json")) else {"findings": [], "fixed": []}
    mine = [f for f in kf.get("findings", []) if f["property"] == prop]
    known_lines, unexplained = [], list(failed)
    replay_bin = None
    if mine or failed:
        import replay_run
        replay_bin = replay_run.build(scratch, log)
    for f in mine:
        covered = [o for o in unexplained if o["id"] in f.get("obligations", [])]
        if f.get("history"):
            import replay_run
            still = bool(replay_bin) and replay_run.witness_fails(replay_bin, f, log)
        else:
            # identified by the contract clause alone
            still = bool(covered)
        if still:
            known_lines.append(f"KNOWN-FINDING: property={prop} {f['id']}: {f['what']}")
            unexplained = [o for o in unexplained if o not in covered]
    for l in known_lines:
        log(l)

    # ---- verdict
    rc = 0
    replay_path = None
    if unexplained:
        rc = 1
        os.makedirs(os.path.join(VERIF, "work", "replays"), exist_ok=True)
        replay_path = os.path.join(VERIF, "work", "replays", f"{prop}-{tier}-{int(time.time())}.json")
        witness = None
        if replay_bin:
            import replay_run
            witness = replay_run.search_failing_input(replay_bin, prop, kf, seed, log)
        # the verifier's own counterexample for (cheap) refuted Kani obligations: concrete values of the harness's
        # symbolic inputs, from Kani's concrete playback
        cex = []
        try:
            import kani_run
            seen = set()
            for o in unexplained:
                if o["backend"] != "kani/cbmc" or o["via"] in seen or (o.get("time_s") or 0) > 240 or len(seen) >= 2:
                    continue
                seen.add(o["via"])
                ent = [e for e in kentries if e.get("id", e["harness"]) == o["via"]]
                if ent:
                    c = kani_run.counterexample(scratch, ent[0])
                    if c:
                        cex.append(c)
                        log(f"  [kani] counterexample for {o['via']}: refuted check {c['refuted_check']!r}, inputs {c['symbolic_inputs_in_order_of_kani_any_calls'][:8]}")
        except Exception as e:
            log(f"  [kani] counterexample extraction failed: {e}")
        rep = {"property": prop, "tier": tier, "repo_hash": common.repo_hash(), "verifier_counterexamples": cex,
               "failed_obligations": [{k: o[k] for k in ("id", "backend", "kind", "via", "reason", "cmd")} | {"verifier_output": o["tail"]} for o in unexplained],
               "failing_input": witness,
               "replay": "bin/check --replay <this file> re-runs the failing input on the real crate (when one was found) and the failed obligations"}
        with open(replay_path, "w") as fh:
            json.dump(rep, fh, indent=1)
        for o in unexplained:
            log(f"FAILED obligation {o['id']} [{o['backend']}, {o['kind']}] via {o['via']}: {o['reason'][:300]}")
        if witness:
            log(f"failing input replayed on the real crate: {witness['history']}")
            for l in witness["observed"][:5]:
                log("   " + l)
        log(f"VIOLATION property={prop} replay={replay_path}" + ("" if witness else " no-failing-input-found"))
    elif undecided:
        rc = 2
        seen = set()
        for o in undecided:
            if o['reason'] in seen:
                continue
            seen.add(o['reason'])
            n = sum(1 for x in undecided if x['reason'] == o['reason'])
            log(f"UNDECIDED {n} obligation(s), e.g. {o['id']} via {o['via']}: {o['reason'][:300]}")

    # ---- evidence
    proved = [o for o in obligations if o["kind"] in ("complete", "unbounded")]
    bounded = [o for o in obligations if o["kind"] == "bounded"]
    units = sorted(set(o["unit"] for o in obligations))
    backends = {}
    for o in obligations:
        b = backends.setdefault(o["backend"], {"obligations": 0, "discharged": 0, "solver_wall_s": 0.0, "_seen": set()})
        b["obligations"] += 1
        b["discharged"] += o["status"] == "discharged"
        if o["via"] not in b["_seen"]:
            b["_seen"].add(o["via"])
            b["solver_wall_s"] += o["time_s"] or 0
    for b in backends.values():
        del b["_seen"]
        b["solver_wall_s"] = round(b["solver_wall_s"], 1)
    samples = []
    contract_text = contract_texts()
    for o in obligations[:400]:
        smp = {"obligation": o["id"], "backend": o["backend"], "kind": o["kind"], "via": o["via"], "status": o["status"], **({"bounds": o["bounds"]} if o["bounds"] else {})}
        if o["id"] in contract_text:
            smp["contract"] = contract_text[o["id"]][:600]
        if o.get("max_rss_gb"):
            smp["max_rss_gb"] = o["max_rss_gb"]
        samples.append(smp)
    rule_counts = {}
    for e in ventries:
        r = vres.get(e["id"])
        if r and r.get("rule_counts"):
            rule_counts = r["rule_counts"]
            break
    cmds = sorted(set(o["cmd"] for o in obligations if o["cmd"]))
    ev = {
        "property_id": prop, "tier": tier, "seed": seed, "level": "proof",
        "coverage": {
            "obligations": len(proved), "discharged": sum(o["status"] == "discharged" for o in proved),
            "checker_cmd": f"bin/check {prop} --tier {tier}  (runs: " + " ;; ".join(cmds[:3]) + (" ;; ..." if len(cmds) > 3 else "") + ")",
            "trusted_base": scan_trusted_base() + [a for a in reg.get("assumptions", {}).get(prop, [])],
            "explanation": "obligations/discharged count only clauses proved for all inputs (Kani harnesses that are loop-free over full-domain symbolic inputs: 'complete'; Verus: 'unbounded'). Bounded stand-ins are listed separately under bounded_standins and are not counted as proved.",
            "bounded_standins": {"obligations": len(bounded), "discharged": sum(o["status"] == "discharged" for o in bounded),
                                 "bounds": sorted(set(json.dumps(o["bounds"], sort_keys=True) for o in bounded if o["bounds"]))},
            "structural_assumptions": [{"id": o["id"], "status": o["status"], "reason": o["reason"]} for o in obligations if o["kind"] == "structural"],
            "functions_under_contract": fn_spans(reg, units),
            "backends": backends,
            "served_from_cache": sum(1 for o in obligations if o["cached"]),
            "cache_note": "results are cached by sha256(repo working tree sources + all verification sources + obligation record); a cached obligation was discharged by the identical inputs earlier",
            "samples": samples,
            "extraction_rule_applications": rule_counts,
            "vacuity": "every run must refute a deliberately false claim in each back end (Kani harness k_canary_must_fail with a satisfied reachability cover; Verus lemma canary_must_fail); otherwise the run is reported undecided",
            "known_findings_reported": known_lines,
            "failed": [o["id"] for o in failed], "undecided": [o["id"] + ": " + o["reason"][:120] for o in undecided],
            "repo_hash": common.repo_hash(),
        },
        "assumptions": ASSUMPTIONS_COMMON + reg.get("assumptions", {}).get(prop, []),
        "wall_s": round(wall, 1),
        "violations": len(unexplained),
    }
    evdir = os.environ.get("VERIF_EVIDENCE_DIR") or os.path.join(VERIF, "evidence")
    os.makedirs(evdir, exist_ok=True)
    with open(os.path.join(evdir, f"{prop}.json"), "w") as fh:
        json.dump(ev, fh, indent=1)
    nd = sum(o["status"] == "discharged" for o in obligations)
    log(f"== {prop}: {nd}/{len(obligations)} obligations discharged ({len(proved)} proved-kind, {len(bounded)} bounded), {len(failed)} failed, {len(undecided)} undecided, {len(known_lines)} known findings; {wall:.0f}s; exit {rc}")
    if not obligations and rc == 0:
        log("no obligations ran: vacuous, treating as undecided")
        return 2
    return rc

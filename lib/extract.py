"""V pipeline, step 1: mechanical extraction of the real functions of /repo/src/{link,cycle}.rs into one
Verus file.  Nothing is hand-copied: every run cuts the items out of the working tree by name, applies the
fixed rewrite rules below (each application is counted and reported), and splices the contract text of
contracts/verus/annotations.py at positions keyed by function name, loop ordinal and line anchors.

A rule or anchor that does not match as recorded is a LOST ANCHOR: the run is undecided (exit 2), never a
violation and never a success."""
import os, re, sys


class LostAnchor(Exception):
    pass


# ------------------------------------------------------------------ source cutting
def _strip_strings(line):
    line = re.sub(r'"(?:\\.|[^"\\])*"', '""', line)
    line = re.sub(r"'(?:\\.|[^'\\])'", "''", line)
    return line.split("//")[0]


def match_brace(lines, start_line, start_col=0):
    """lines[start_line] contains the opening brace at/after start_col; returns index of the closing line"""
    depth = 0
    seen = False
    for i in range(start_line, len(lines)):
        l = _strip_strings(lines[i])
        if i == start_line:
            l = " " * start_col + l[start_col:]
        for c in l:
            if c == "{":
                depth += 1
                seen = True
            elif c == "}":
                depth -= 1
                if seen and depth == 0:
                    return i
    raise LostAnchor("unbalanced braces")


def find_item(lines, header_re, what):
    """first line matching header_re; the item extends to the matching close brace (or to the `;` for brace-less items)"""
    for i, l in enumerate(lines):
        if re.search(header_re, l):
            # find the line with the opening brace
            j = i
            while j < len(lines) and "{" not in _strip_strings(lines[j]) and not _strip_strings(lines[j]).rstrip().endswith(";"):
                j += 1
            if j >= len(lines):
                break
            if "{" not in _strip_strings(lines[j]):
                return i, j
            if _strip_strings(lines[j]).count("{") == _strip_strings(lines[j]).count("}") and j == i:
                return i, j  # one-line item such as `impl<T> Copy for Link<T> {}`
            return i, match_brace(lines, j)
    raise LostAnchor(f"item not found: {what} ({header_re})")


def attrs_before(lines, i):
    """include attribute lines (#[...]) directly above item start i; doc comments are dropped"""
    k = i
    while k > 0 and (lines[k - 1].strip().startswith("#[") or lines[k - 1].strip().startswith("///")):
        k -= 1
    return k


def cut(lines, header_re, what, indent_from=None):
    i, j = find_item(lines, header_re, what)
    k = attrs_before(lines, i)
    out = [l for l in lines[k:j + 1]]
    return out


def cut_method(lines, impl_re, fn_name, what):
    a, b = find_item(lines, impl_re, what + " (impl)")
    body = lines[a:b + 1]
    i, j = find_item(body[1:], r"^\s*(pub(\([a-z]+\))?\s+)?(const\s+)?(unsafe\s+)?fn\s+" + re.escape(fn_name) + r"\b", what)
    i += 1
    j += 1
    k = attrs_before(body, i)
    return body[k:j + 1]


# ------------------------------------------------------------------ rewrite rules
class Rules:
    def __init__(self):
        self.counts = {}

    def sub(self, rule, pattern, repl, text, expect=None, flags=0):
        new, n = re.subn(pattern, repl, text, flags=flags)
        self.counts[rule] = self.counts.get(rule, 0) + n
        if expect is not None and n != expect:
            raise LostAnchor(f"rule {rule}: pattern {pattern!r} matched {n} times, expected {expect}")
        return new


def dedent(lines):
    ind = min((len(l) - len(l.lstrip()) for l in lines if l.strip()), default=0)
    return [l[ind:] if l.strip() else "" for l in lines]


def common_rules(R, text):
    # X6: drop docs and inlining hints
    text = R.sub("X6.doc", r"(?m)^\s*///.*\n", "", text)
    text = R.sub("X6.inline", r"(?m)^\s*#\[(inline(\(always\))?|must_use)\]\n", "", text)
    # X1: pointers are opaque addresses; the payload type parameter disappears
    text = R.sub("X1.nonnull", r"NonNull<RcBox<T>>", "Ptr", text)
    text = R.sub("X1.link_t", r"\bLink<T>", "Link", text)
    text = R.sub("X1.links_t", r"\bLinks<T>", "Links", text)
    text = R.sub("X1.impl_t", r"\bimpl<T> ", "impl ", text)
    # X8: visibility only
    text = R.sub("X8.pubcrate", r"\bpub\(crate\) ", "pub ", text)
    return text


# ------------------------------------------------------------------ annotation splicing
def name_return(R, sig_lines, ret):
    """`-> TYPE {`  becomes  `-> (ret: TYPE)` and the opening brace moves to its own line (X7)"""
    text = "\n".join(sig_lines)
    if ret:
        text2, n = re.subn(r"->\s*(.+?)\s*\{\s*$", lambda m: f"-> ({ret}: {m.group(1)})", text, flags=re.S)
        if n != 1:
            raise LostAnchor(f"cannot name the return value in signature: {text!r}")
        R.counts["X7.named_return"] = R.counts.get("X7.named_return", 0) + 1
        return text2
    text2, n = re.subn(r"\s*\{\s*$", "", text, flags=re.S)
    if n != 1:
        raise LostAnchor(f"signature does not end with an opening brace: {text!r}")
    return text2


def split_fn(fn_lines):
    """-> (attr+signature lines (through the line holding the body's opening brace), body lines, closing line)"""
    for i, l in enumerate(fn_lines):
        if re.search(r"\bfn\b", l):
            j = i
            while "{" not in _strip_strings(fn_lines[j]):
                j += 1
            end = match_brace(fn_lines, j)
            return fn_lines[:j + 1], fn_lines[j + 1:end], fn_lines[end]
    raise LostAnchor("no fn in item")


def find_line(body, pattern, nth, what):
    hits = [i for i, l in enumerate(body) if re.search(pattern, l)]
    if len(hits) < nth:
        raise LostAnchor(f"anchor {what}: {pattern!r} occurrence {nth} not found ({len(hits)} matches)")
    return hits[nth - 1]


LOOP_RE = r"^\s*(while\b|for\b|loop\b)"


def alpha_rename(R, fn_lines, ann, name):
    """X9: the contract text refers to parameters and a few locals by name; rename the function's own
    names to those (alpha-renaming, semantics preserving) so that a harmless rename in /repo does not lose
    the anchors.  Parameters are matched by position, locals by the binding pattern that introduces them."""
    text = "\n".join(fn_lines)
    ren = []
    if ann.get("params"):
        m = re.search(r"\bfn\s+\w+(?:<[^>]*>)?\s*\(([^)]*)\)", text, re.S)
        if not m:
            raise LostAnchor(f"{name}: cannot parse parameter list")
        actual = []
        for part in m.group(1).split(","):
            part = part.strip()
            if not part or part in ("&self", "&mut self", "self"):
                continue
            pm = re.match(r"(?:mut\s+)?(\w+)\s*:", part)
            if not pm:
                raise LostAnchor(f"{name}: unsupported parameter pattern {part!r}")
            actual.append(pm.group(1))
        if len(actual) != len(ann["params"]):
            raise LostAnchor(f"{name}: {len(actual)} parameters, contract expects {len(ann['params'])}")
        ren += list(zip(actual, ann["params"]))
    for canon, pat in ann.get("locals", []):
        m = re.search(pat, text)
        if not m:
            raise LostAnchor(f"{name}: binding of local `{canon}` not found ({pat!r})")
        if m.group(1) is not None:      # None: the pattern binds nothing (`_`), there is nothing to rename
            ren.append((m.group(1), canon))
    n = 0
    for act, canon in ren:
        if act != canon:
            # occurrences after `::` or `.` are path segments, methods or fields, not the local
            if re.search(r"(?<![:.\w])" + re.escape(canon) + r"\b", "\n".join(_strip_strings(l) for l in text.split("\n"))):
                raise LostAnchor(f"{name}: cannot rename `{act}` to `{canon}`: name already in use")
            text = re.sub(r"(?<![:.\w])" + re.escape(act) + r"\b", canon, text)
            n += 1
    R.counts["X9.alpha_renamed"] = R.counts.get("X9.alpha_renamed", 0) + n
    return text.split("\n")


def annotate_fn(R, fn_lines, ann, name):
    """splices the contract of one function; ann is its record from annotations.py"""
    fn_lines = alpha_rename(R, fn_lines, ann, name)
    sig, body, close = split_fn(fn_lines)
    # drop attribute lines (cfg etc. are handled by rules before)
    sig_text = name_return(R, sig, ann.get("ret"))
    for pat, repl in ann.get("sig_rewrites", []):
        sig_text = R.sub(f"X4.sig[{name}]", pat, repl, sig_text, expect=1)
    out_head = [sig_text]
    if ann.get("spec"):
        out_head.append(ann["spec"].rstrip())
    out_head.append("{")
    # line-level rewrites of the body (pattern desugaring, heap reader, closure annotations)
    btext = "\n".join(body)
    for rule, pat, repl, expect in ann.get("rewrites", []):
        btext = R.sub(f"{rule}[{name}]", pat, repl, btext, expect=expect, flags=re.M)
    body = btext.split("\n")
    # loops: spec between header and brace, body_start, body_end, after
    inserts = []  # (line index, position 'before'|'after', text)
    loop_lines = [i for i, l in enumerate(body) if re.search(LOOP_RE, l)]
    for k, spec in sorted(ann.get("loops", {}).items()):
        if k > len(loop_lines):
            raise LostAnchor(f"{name}: loop {k} not found ({len(loop_lines)} loops)")
        i = loop_lines[k - 1]
        if spec.get("header_must_match") and not re.search(spec["header_must_match"], body[i]):
            raise LostAnchor(f"{name}: loop {k} header changed: {body[i].strip()!r}")
        j = i
        while "{" not in _strip_strings(body[j]):
            j += 1
        end = match_brace(body, j)
        if spec.get("spec"):
            # move the opening brace after the loop spec
            if not _strip_strings(body[j]).rstrip().endswith("{"):
                raise LostAnchor(f"{name}: loop {k} header does not end with an opening brace")
            body[j] = re.sub(r"\s*\{\s*$", "", body[j])
            inserts.append((j, "after", spec["spec"].rstrip() + "\n{"))
        if spec.get("body_start"):
            inserts.append((j, "after2", spec["body_start"]))
        if spec.get("body_end"):
            inserts.append((end, "before", spec["body_end"]))
        if spec.get("after"):
            inserts.append((end, "after", spec["after"]))
    ins_list = []
    for ins in ann.get("inserts", []):
        if ins.get("nth") == "all":
            hits = [k for k, l in enumerate(body) if re.search(ins["at"], l)]
            if not hits:
                raise LostAnchor(f"anchor {name}:{ins['at']!r} not found")
            ins_list += [dict(ins, nth=k + 1) for k in range(len(hits))]
        else:
            ins_list.append(ins)
    for ins in ins_list:
        if ins.get("optional") and not any(re.search(ins["at"], l) for l in body):
            # a proof hint for a statement that the changed code no longer has: the obligation is then checked without it
            R.counts["X7.optional_hint_skipped"] = R.counts.get("X7.optional_hint_skipped", 0) + 1
            continue
        i = find_line(body, ins["at"], ins.get("nth", 1), f"{name}:{ins['at']}")
        # Ghost `let` bindings must stay in scope for the rest of the loop body.  If an edit has wrapped the
        # anchor statement in a new block (e.g. `if c { visited.insert(node); }`), splice after that block
        # instead of inside it: the first later line that closes a block at the indentation the anchor had on
        # the pinned tree.
        want = ins.get("indent")
        if want is not None and ins["pos"] == "after":
            have = len(body[i]) - len(body[i].lstrip())
            if have > want:
                j = i + 1
                while j < len(body) and not (body[j].strip() == "}" and len(body[j]) - len(body[j].lstrip()) == want):
                    j += 1
                if j >= len(body):
                    raise LostAnchor(f"{name}: anchor {ins['at']!r} is nested and its enclosing block could not be found")
                R.counts["X7.anchor_moved_out_of_block"] = R.counts.get("X7.anchor_moved_out_of_block", 0) + 1
                i = j
        txt = ins["text"]
        if "$RECV" in txt:
            rm = re.match(r"\s*(\w+)\.", body[i])
            if not rm:
                raise LostAnchor(f"{name}: anchor {ins['at']!r} has no receiver identifier")
            txt = txt.replace("$RECV", rm.group(1))
        inserts.append((i, ins["pos"], txt))
    R.counts[f"X7.ghost_inserts[{name}]"] = len(inserts)
    before, after, after2 = {}, {}, {}
    for i, pos, text in inserts:
        {"before": before, "after": after, "after2": after2}[pos].setdefault(i, []).append(text)
    out = []
    if ann.get("body_start"):
        out.append(ann["body_start"])
    for i, l in enumerate(body):
        for t in before.get(i, []):
            out.append(t)
        out.append(l)
        for t in after.get(i, []):
            out.append(t)
        for t in after2.get(i, []):
            out.append(t)
    if ann.get("body_end"):
        out.append(ann["body_end"])
    return "\n".join(out_head + out + [close])


# ------------------------------------------------------------------ X10: RefCell guards made explicit
GUARD_LET = re.compile(r"^(\s*)let mut (\w+) = (\w+)\.(?:inner|as_ref)\(\)\.links\(\)\.borrow_mut\(\);\s*$")


def raii_guards(R, body, name, end_indent="    "):
    """X10.  `let mut G = H.inner().links().borrow_mut();` becomes `let mut G_gN = heap.borrow_mut(&H.ptr);`
    (the table is taken out of the heap model; taking it while it is out is the RefCell's "already borrowed"
    panic and is a precondition violation), later uses of G in the same scope are renamed to G_gN,
    `drop(G);` becomes `heap.release(&H.ptr, G_gN);`, and the releases that Rust performs implicitly — at a
    `return;` and at the closing brace of the block that declared the guard, youngest first — are written
    out.  Only loop-free bodies (`if`/`match` blocks) are supported; anything else is a lost anchor."""
    out, live, names, n = [], [], {}, 0     # live: [dict(g, owner, depth)], names: var -> current guard name
    depth = 0
    returned_at = None
    for line in body:
        code = _strip_strings(line)
        if re.search(r"\b(while|for|loop)\b", code) or "borrow()" in code:
            raise LostAnchor(f"{name}: X10 supports straight-line bodies only: {line.strip()!r}")
        ind = re.match(r"\s*", line).group(0)
        if code.strip().startswith("}"):
            # implicit drops at the end of the block, youngest first (skipped when the block ended in `return;`)
            closing = [g for g in live if g["depth"] == depth]
            if returned_at != depth:
                for g in reversed(closing):
                    out.append(f"{ind}    heap.release(&{g['owner']}.ptr, {g['g']});")
                    R.counts["X10.scope_end_release"] = R.counts.get("X10.scope_end_release", 0) + 1
            for g in closing:
                live.remove(g)
                if names.get(g["var"]) == g["g"]:
                    del names[g["var"]]
            if returned_at == depth:
                returned_at = None
            depth -= 1
            out.append(line)
            depth += code.count("{") - (code.count("}") - 1)
            continue
        m = GUARD_LET.match(code.rstrip()) if code.strip() else None
        if m:
            n += 1
            g = f"{m.group(2)}_g{n}"
            live.append({"g": g, "owner": m.group(3), "depth": depth, "var": m.group(2)})
            names[m.group(2)] = g
            out.append(f"{m.group(1)}let mut {g} = heap.borrow_mut(&{m.group(3)}.ptr);")
            R.counts["X10.borrow_mut"] = R.counts.get("X10.borrow_mut", 0) + 1
            continue
        if "borrow_mut" in code:
            raise LostAnchor(f"{name}: X10 does not recognise this borrow: {line.strip()!r}")
        for var, g in names.items():
            line = re.sub(r"\b" + re.escape(var) + r"\b", g, line)
            code = re.sub(r"\b" + re.escape(var) + r"\b", g, code)
        dm = re.match(r"^(\s*)drop\((\w+)\);\s*$", code.rstrip())
        if dm and any(g["g"] == dm.group(2) for g in live):
            g = [g for g in live if g["g"] == dm.group(2)][0]
            out.append(f"{dm.group(1)}heap.release(&{g['owner']}.ptr, {g['g']});")
            live.remove(g)
            if names.get(g["var"]) == g["g"]:
                del names[g["var"]]
            R.counts["X10.explicit_drop"] = R.counts.get("X10.explicit_drop", 0) + 1
            continue
        if re.match(r"^\s*(return|continue);\s*$", code.rstrip()):
            for g in reversed(live):
                out.append(f"{ind}heap.release(&{g['owner']}.ptr, {g['g']});")
                R.counts["X10.return_release"] = R.counts.get("X10.return_release", 0) + 1
            returned_at = depth
        out.append(line)
        depth += code.count("{") - code.count("}")
    # end of the function body: guards declared at depth 0
    if returned_at != 0:
        for g in reversed([g for g in live if g["depth"] == 0]):
            out.append(f"{end_indent}heap.release(&{g['owner']}.ptr, {g['g']});")
            R.counts["X10.scope_end_release"] = R.counts.get("X10.scope_end_release", 0) + 1
    return out


def counter_rule(R, text):
    """X12: counter accesses `H.inner().inc_strong()` (dec_strong, inc_weak, dec_weak), with or without an
    `unsafe { }` wrapper already removed, become the shim's counter methods, so that a change which touches a
    counter in a function whose contract says `cnts unchanged` is refuted rather than undecided"""
    return R.sub("X12.counter_access", r"\b(\w+)\.inner\(\)\.(inc_strong|dec_strong|inc_weak|dec_weak)\(\)", r"heap.\2(&\1.ptr)", text)


def extract_adopt(repo, ADOPT, R):
    lines = open(os.path.join(repo, "src", "adopt.rs")).read().split("\n")
    parts = [ADOPT.get("__prelude", "")]
    for fn in ("adopt_unchecked", "unadopt"):
        fl = dedent(cut_method(lines, r"^unsafe impl<T> Adopt for Rc<T> \{", fn, f"Adopt::{fn}"))
        text = common_rules(R, "\n".join(fl))
        text = R.sub("X4.unsafe_fn", r"\bunsafe fn\b", "fn", text)
        text = R.sub("X4.unsafe_block", r"unsafe \{ (.*?) \}", r"\1", text)
        text = R.sub("X3.handle_eq", r"\bptr::eq\((\w+), (\w+)\)", r"\1.hid == \2.hid", text)
        text = R.sub("X3.alloc_eq", r"\b(?:Rc|Self)::ptr_eq\((\w+), (\w+)\)", r"\1.ptr == \2.ptr", text)
        text = counter_rule(R, text)
        fl = text.split("\n")
        sig, body, close = split_fn(fl)
        body = raii_guards(R, body, fn)
        parts.append(annotate_fn(R, sig + body + [close], ADOPT[fn], fn))
    return "verus! {\n\n" + "\n\n".join(p for p in parts if p) + "\n\n} // verus!\n"



def extract_drop(repo, DROP, R):
    """X11: the UNLINK PREFIX of drop_unreachable_with_adoptions (src/drop.rs): the statements from the start of
    the body through `<cell>.borrow_mut().clear();`.  Everything after that line (sentinel, value and table
    destruction, implicit-weak release, deallocation) is DROPPED here and is the business of the Kani
    obligations U6.*.  The shared borrow held by the `for` header is modelled by taking the dying object's
    table out of the heap model for the duration of the loop (X10), the `for` is desugared to
    `while let Some(kv) = it.next()` (Verus' for-loops do not support `continue`), and the temporary RefMut of
    the `clear()` statement is released at the end of that statement."""
    name = "drop_unreachable_with_adoptions"
    ann = DROP[name]
    lines = open(os.path.join(repo, "src", "drop.rs")).read().split("\n")
    fl = dedent(cut(lines, r"^unsafe fn drop_unreachable_with_adoptions<T>\(", "fn " + name))
    text = common_rules(R, "\n".join(fl))
    text = R.sub("X4.unsafe_fn", r"\bunsafe fn\b", "fn", text)
    text = R.sub("X1.fn_generic", r"fn drop_unreachable_with_adoptions<T>\(", "fn drop_unreachable_with_adoptions(", text, expect=1)
    text = counter_rule(R, text)
    fl = alpha_rename(R, text.split("\n"), ann, name)
    sig, body, close = split_fn(fl)
    code = [_strip_strings(l).rstrip() for l in body]
    ks = [i for i, c in enumerate(code) if re.match(r"^\s*\w+\.borrow_mut\(\)\.clear\(\);$", c)]
    if len(ks) != 1:
        raise LostAnchor(f"{name}: end of the unlink prefix (`<cell>.borrow_mut().clear();`) found {len(ks)} times")
    R.counts["X11.dropped_suffix_statements_lines"] = sum(1 for c in code[ks[0] + 1:] if c.strip())
    body, code = body[:ks[0] + 1], code[:ks[0] + 1]
    # the cell alias `let C = H.inner().links();`
    al = [(i, re.match(r"^\s*let (\w+) = (\w+)\.inner\(\)\.links\(\);$", c)) for i, c in enumerate(code)]
    al = [(i, m) for i, m in al if m]
    if len(al) != 1:
        raise LostAnchor(f"{name}: cell alias `let C = H.inner().links();` found {len(al)} times")
    ai, am = al[0]
    cell, owner = am.group(1), am.group(2)
    # the loop header
    hs = [(i, re.match(r"^(\s*)for \((\w+), (?:&(\w+)|_)\) in " + re.escape(cell) + r"\.borrow\(\)\.iter\(\) \{$", c)) for i, c in enumerate(code)]
    hs = [(i, m) for i, m in hs if m]
    if len(hs) != 1 or hs[0][0] < ai or any(re.search(r"\b(for|while|loop)\b", c) for i, c in enumerate(code) if i != hs[0][0]):
        raise LostAnchor(f"{name}: purge loop header `for (A, &B) in {cell}.borrow().iter() {{` not found exactly once")
    hi, hm = hs[0]
    he = match_brace(body, hi)
    ind, a, b = hm.group(1), hm.group(2), hm.group(3) or "strong"   # `_`: the multiplicity is bound all the same (unused by the code)
    inner = []
    for l in body[hi + 1:he]:
        l = R.sub("X3.alloc_eq", r"ptr::eq\(" + re.escape(owner) + r"\.inner\(\), (\w+)\.as_ptr\(\)\)", owner + r".ptr == \1.ptr", l)
        inner.append(l)
    inner = raii_guards(R, inner, name, end_indent=ind + "    ")
    shared = f"{cell}_s1"
    out = [l for i, l in enumerate(body[:hi]) if i != ai]
    out += [f"{ind}let {shared} = heap.borrow_mut(&{owner}.ptr);", f"{ind}let mut it = {shared}.iter();", f"{ind}while let Some(kv) = it.next() {{",
            f"{ind}    let {a} = kv.0; let {b} = *kv.1;"] + inner + [body[he], f"{ind}heap.release(&{owner}.ptr, {shared});"]
    R.counts["X10.shared_borrow_for_loop"] = 1
    R.counts["X5.for_to_while_let"] = 1
    for l in body[he + 1:]:
        c = _strip_strings(l).rstrip()
        m = re.match(r"^(\s*)" + re.escape(cell) + r"\.borrow_mut\(\)\.(\w+)\((.*)\);$", c)
        if m:
            out += [f"{m.group(1)}let mut {cell}_t1 = heap.borrow_mut(&{owner}.ptr);", f"{m.group(1)}{cell}_t1.{m.group(2)}({m.group(3)});", f"{m.group(1)}heap.release(&{owner}.ptr, {cell}_t1);"]
            R.counts["X10.temporary_guard"] = R.counts.get("X10.temporary_guard", 0) + 1
        elif c.strip():
            raise LostAnchor(f"{name}: unsupported statement between the purge loop and the end of the prefix: {c.strip()!r}")
        else:
            out.append(l)
    ann2 = {k: v for k, v in ann.items() if k not in ("params", "locals")}
    return "verus! {\n\n" + DROP.get("__prelude", "") + "\n\n" + annotate_fn(R, sig + out + [close], ann2, name) + "\n\n} // verus!\n"


# ------------------------------------------------------------------ the four files
def load_annotations(verif):
    ns = {}
    path = os.path.join(verif, "contracts", "verus", "annotations.py")
    exec(compile(open(path).read(), path, "exec"), ns)
    return ns["LINK"], ns["CYCLE"], ns.get("EXPECTED_COUNTS", {}), ns.get("ADOPT"), ns.get("DROP")


def extract_link(repo, LINK, R):
    lines = open(os.path.join(repo, "src", "link.rs")).read().split("\n")
    parts = []
    # enum Kind (+ Structural so that `==` on it is structural equality in specs: ghost plumbing)
    kind = "\n".join(dedent(cut(lines, r"^pub\(crate\) enum Kind\b", "enum Kind")))
    kind = R.sub("X7.structural", r"#\[derive\(([^)]*)\)\]", r"#[derive(\1, Structural)]", kind, expect=1)
    parts.append(common_rules(R, kind))
    # struct Links / struct Link with public fields
    for nm, hdr in (("Links", r"^pub\(crate\) struct Links<T>"), ("Link", r"^pub\(crate\) struct Link<T>")):
        st = common_rules(R, "\n".join(dedent(cut(lines, hdr, f"struct {nm}"))))
        st = R.sub("X8.pubfield", r"(?m)^(\s+)(registry|ptr|kind):", r"\1pub \2:", st)
        parts.append(st)
    # methods of Links and Link
    for impl_name, impl_re, fns in (("Links", r"^impl<T> Links<T> \{", ["new", "insert", "remove", "clear", "is_empty", "iter"]),
                                    ("Link", r"^impl<T> Link<T> \{", ["forward", "backward", "loopback", "kind", "as_forward"])):
        chunks = [LINK.get(f"{impl_name}::__spec_items", "")]
        for fn in fns:
            key = f"{impl_name}::{fn}"
            fl = dedent(cut_method(lines, impl_re, fn, key))
            text = common_rules(R, "\n".join(fl))
            text = R.sub("X2.iter_type", r"Iter<'_, Link, usize>", "Iter<'_, Link, usize>", text)
            chunks.append(annotate_fn(R, text.split("\n"), LINK[key], key))
        parts.append(f"impl {impl_name} {{\n" + "\n\n".join(c for c in chunks if c) + "\n}")
    # trait impls: Clone, Copy, PartialEq, Eq verbatim inside verus!, Hash verbatim outside
    for nm, hdr in (("Clone", r"^impl<T> Clone for Link<T>"), ("Copy", r"^impl<T> Copy for Link<T>"), ("PartialEq", r"^impl<T> PartialEq for Link<T>"), ("Eq", r"^impl<T> Eq for Link<T>")):
        t = common_rules(R, "\n".join(dedent(cut(lines, hdr, f"impl {nm} for Link"))))
        if nm == "PartialEq":
            t = R.sub("X3.ptr_eq", r"ptr::eq\(self\.as_ptr\(\), other\.as_ptr\(\)\)", "self.ptr == other.ptr", t, expect=1)
            parts.append(LINK["PartialEq::__spec_impl"])
        parts.append(t)
    hash_impl = common_rules(R, "\n".join(dedent(cut(lines, r"^impl<T> Hash for Link<T>", "impl Hash for Link"))))
    return "verus! {\n\n" + "\n\n".join(parts) + "\n\n} // verus!\n\n// X6: outside verus!, unverified; its consistency with `eq` is part of the key-model assumption\n" + hash_impl + "\n"


def extract_cycle(repo, CYCLE, R):
    lines = open(os.path.join(repo, "src", "cycle.rs")).read().split("\n")
    parts = [CYCLE.get("__prelude", "")]
    fl = dedent(cut(lines, r"^fn cycle_refs<T>\(", "fn cycle_refs"))
    text = common_rules(R, "\n".join(fl))
    text = R.sub("X1.fn_generic", r"fn cycle_refs<T>\(", "fn cycle_refs(", text, expect=1)
    text = R.sub("X6.debug_cycle", r"(?m)^\s*#\[cfg\(debug_assertions\)\]\n\s*debug_cycle\(&\w+\);\n", "", text)
    # X5: Verus has no reference patterns; `if let Some(&V) = E {` is `if let Some(V__r) = E { let V = *V__r;` for Copy values
    text = R.sub("X5.ref_pattern", r"if let Some\(&(\w+)\) = (.+?) \{", r"if let Some(\1__r) = \2 { let \1 = *\1__r;", text)
    parts.append(annotate_fn(R, text.split("\n"), CYCLE["cycle_refs"], "cycle_refs"))
    ol = dedent(cut_method(lines, r"^impl<T> Rc<T> \{", "orphaned_cycle", "Rc::orphaned_cycle"))
    text = common_rules(R, "\n".join(ol))
    parts.append(annotate_fn(R, text.split("\n"), CYCLE["orphaned_cycle"], "orphaned_cycle"))
    return "verus! {\n\n" + "\n\n".join(p for p in parts if p) + "\n\n} // verus!\n"


def build(repo, verif):
    """-> (file text, rule counts).  Raises LostAnchor."""
    LINK, CYCLE, expected, ADOPT, DROP = load_annotations(verif)
    R = Rules()
    link_text = extract_link(repo, LINK, R)
    cycle_text = extract_cycle(repo, CYCLE, R)
    adopt_text = extract_adopt(repo, ADOPT, R)
    drop_text = extract_drop(repo, DROP, R)
    rd = lambda n: open(os.path.join(verif, "verus", n)).read()
    text = "\n".join([rd("prelude.rs"), "// ==== extracted from src/link.rs ====", link_text, rd("heap.rs"), rd("spec.rs"), rd("lemmas_trace.rs"),
                      "// ==== extracted from src/cycle.rs ====", cycle_text, rd("lemmas.rs"), rd("mheap.rs"), "// ==== extracted from src/adopt.rs ====", adopt_text, "// ==== extracted from src/drop.rs (unlink prefix of drop_unreachable_with_adoptions) ====", drop_text, "fn main() {}\n"])
    for k, v in expected.items():
        if R.counts.get(k, 0) != v:
            raise LostAnchor(f"rule {k} applied {R.counts.get(k, 0)} times, pinned tree has {v}")
    return text, R.counts


if __name__ == "__main__":
    verif = os.path.dirname(os.path.dirname(os.path.abspath(__file__)))
    repo = sys.argv[1] if len(sys.argv) > 1 else "/repo"
    try:
        text, counts = build(repo, verif)
    except LostAnchor as e:
        print("LOST ANCHOR:", e, file=sys.stderr)
        sys.exit(2)
    out = sys.argv[2] if len(sys.argv) > 2 else "/dev/stdout"
    open(out, "w").write(text)
    for k in sorted(counts):
        print(f"{k}: {counts[k]}", file=sys.stderr)

"""V and L pipelines: extract the real functions from /repo's working tree into one Verus file (lib/extract.py),
run `verus --output-json --time` on it once, and report one obligation per verified function."""
import hashlib, json, os, re

import common
from common import VERIF, ENV, run, cache_get, cache_put, repo_hash, machinery_hash
import extract

FN_RE = re.compile(r"^\s*(?:pub\s+)?(?:open\s+|closed\s+)?(?:const\s+)?(?:proof\s+|spec\s+|exec\s+)?fn\s+([A-Za-z0-9_]+)")
IMPL_RE = re.compile(r"^impl(?:<[^>]*>)?\s+(?:[A-Za-z0-9_:]+\s+for\s+)?([A-Za-z0-9_]+)")


def fn_ranges(text):
    """[(start_line, qualified name)] in file order"""
    out, cur_impl, depth_impl = [], None, None
    for i, l in enumerate(text.split("\n"), 1):
        m = IMPL_RE.match(l)
        if m:
            cur_impl = m.group(1)
        elif l.startswith("}"):
            cur_impl = None
        m = FN_RE.match(l)
        if m:
            out.append((i, (cur_impl + "::" if cur_impl and l.startswith((" ", "\t")) else "") + m.group(1)))
    return out


def fn_at(ranges, line):
    name = None
    for s, n in ranges:
        if s <= line:
            name = n
        else:
            break
    return name


def run_all(scratch, ventries, log=print):
    key = hashlib.sha256((repo_hash() + machinery_hash() + "verus").encode()).hexdigest()
    res = cache_get(key)
    cached = res is not None
    if res is None:
        res = _run(scratch, log)
        if not res.get("undecided_all"):
            cache_put(key, res)
    out = {}
    if res.get("undecided_all"):
        log(f"  [verus] all {len(ventries)} units UNDECIDED: {res['undecided_all'][:300]}")
    for e in ventries:
        fn = e["fn"]
        st = res["functions"].get(fn)
        if res.get("undecided_all"):
            o = {"status": "undecided", "reason": res["undecided_all"], "time_s": 0, "detail": res.get("tail", "")}
        elif st is None:
            o = {"status": "undecided", "reason": f"function {fn} not present in the verifier's report (lost anchor)", "time_s": 0}
        else:
            o = dict(st)
        out[e["id"]] = {"obligations": {e["id"]: o}, "cached": cached, "cmd": res.get("cmd", ""), "rule_counts": res.get("rule_counts", {})}
        if not res.get("undecided_all"):
            log(f"  [verus] {e['id']:<40} {o.get('time_s', 0):>7.2f}s  {'ok' if o['status'] == 'discharged' else o['status'].upper() + ' ' + o.get('reason', '')[:160]}{' (cached)' if cached else ''}")
    return out


def _run(scratch, log):
    d = os.path.join(scratch.dir, "v")
    os.makedirs(d, exist_ok=True)
    try:
        text, counts = extract.build(common.REPO, VERIF)
    except extract.LostAnchor as e:
        return {"undecided_all": f"lost anchor: {e}", "functions": {}}
    except Exception as e:  # malformed source etc.
        return {"undecided_all": f"extraction error: {type(e).__name__}: {e}", "functions": {}}
    # vacuity canary: a deliberately false lemma over the same vocabulary must be refuted on every run
    text = text.replace("fn main() {}", "verus! {\npub proof fn canary_must_fail(h: &Heap, x: Ptr)\n    requires h.has(x), heap_closed(h),\n    ensures !reach(h, x, x),\n{\n}\n} // verus!\nfn main() {}")
    path = os.path.join(d, "cactusref_v.rs")
    open(path, "w").write(text)
    cmd = ["verus", path, "--output-json", "--time", "--multiple-errors", "50", "--triggers-mode", "silent"]
    rc, out, secs, to = run(cmd, cwd=d, timeout=600, mem_gb=16)
    if to:
        return {"undecided_all": "verus timeout", "functions": {}}
    # stdout carries the JSON, stderr (merged) the diagnostics: split at the first line that is exactly "{"
    m = re.search(r"^\{\s*$", out, re.M)
    diag = out
    js = None
    if m:
        try:
            js = json.loads(out[m.start():])
            diag = out[:m.start()]
        except ValueError:
            # diagnostics may follow the JSON as well
            depth, end = 0, None
            for i, c in enumerate(out[m.start():]):
                if c == "{":
                    depth += 1
                elif c == "}":
                    depth -= 1
                    if depth == 0:
                        end = m.start() + i + 1
                        break
            try:
                js = json.loads(out[m.start():end])
                diag = out[:m.start()] + out[end:]
            except (ValueError, TypeError):
                js = None
    if js is None or js.get("verification-results", {}).get("encountered-vir-error") or "func-details" not in (js or {}):
        # compile error in the generated file: the changed code is outside what the extraction rules can carry
        return {"undecided_all": "verus could not process the extracted file (unsupported construct or type error)", "functions": {}, "tail": out[-3000:]}
    ranges = fn_ranges(text)
    # diagnostics -> per function
    per_fn = {}
    for m in re.finditer(r"^(error[^\n]*)\n\s*-->\s*[^\n:]*cactusref_v\.rs:(\d+):\d+", diag, re.M):
        fn = fn_at(ranges, int(m.group(2)))
        per_fn.setdefault(fn, []).append(f"{m.group(1)} (generated line {m.group(2)})")
    for m in re.finditer(r"^(error[^\n]*)\n\s*-->\s*std_specs[^\n]*\n(?:[^\n]*\n){0,6}?\s*:::\s*[^\n:]*cactusref_v\.rs:(\d+):\d+", diag, re.M):
        fn = fn_at(ranges, int(m.group(2)))
        per_fn.setdefault(fn, []).append(f"{m.group(1)} (generated line {m.group(2)})")
    funcs = {}
    for mod in js["times-ms"]["smt"].get("smt-run-module-times", []):
        for f in mod.get("function-breakdown", []):
            name = f["function"].split("::", 1)[1] if "::" in f["function"] else f["function"]
            ok = bool(f.get("success"))
            msgs = per_fn.get(name, []) or per_fn.get(name.split("::")[-1], [])
            rlimit = any("Resource limit" in x or "rlimit" in x for x in msgs)
            funcs[name] = {"status": "discharged" if ok else ("undecided" if rlimit else "failed"), "time_s": round(f.get("time-micros", 0) / 1e6, 3),
                           "reason": "; ".join(msgs)[:1500] if not ok else "", "detail": "" if ok else diag[-2500:], "mode": f.get("mode:", "")}
    if not funcs:
        return {"undecided_all": "verus could not process the extracted file (unsupported construct or type error in the changed code)", "functions": {}, "tail": diag[-3000:]}
    can = funcs.pop("canary_must_fail", None)
    if can is None or can["status"] != "failed":
        return {"undecided_all": "verus vacuity canary was not refuted: the run proves nothing", "functions": {}, "tail": diag[-2000:]}
    vr = js["verification-results"]
    return {"functions": funcs, "verified": vr.get("verified"), "errors": vr.get("errors"), "rule_counts": counts,
            "cmd": "python3 lib/extract.py /repo F.rs && verus F.rs --output-json --time", "wall_s": round(secs, 1),
            "smt_ms": js["times-ms"]["smt"].get("smt-run")}

"""Replays histories on the real crate (real hashbrown, no hooks) built from /repo's working tree:
known-finding witnesses, and the search for a failing input when a verifier refutes an obligation
without giving a model."""
import json, os, random, shutil, subprocess, sys

import common
from common import VERIF, ENV, run

sys.path.insert(0, os.path.join(VERIF, "bin"))


def build(scratch, log):
    """builds replay/ against a scratch copy of the working tree; returns the binary path or None"""
    crate = os.path.join(scratch.dir, "crate-native")
    if not os.path.exists(crate):
        shutil.copytree(common.REPO, crate, ignore=shutil.ignore_patterns("target", ".git", "node_modules"), symlinks=True)
    out = os.path.join(scratch.dir, "replay")
    shutil.copytree(os.path.join(VERIF, "replay"), out, ignore=shutil.ignore_patterns("target"))
    toml = open(os.path.join(out, "Cargo.toml")).read().replace('path = "/repo"', f'path = "{crate}"')
    open(os.path.join(out, "Cargo.toml"), "w").write(toml)
    rc, o, secs, to = run(["cargo", "build", "--offline", "-q"], cwd=out, timeout=600)
    b = os.path.join(out, "target", "debug", "cactusref-replay")
    if rc != 0 or not os.path.exists(b):
        log("  [replay] build failed:\n" + o[-1500:])
        return None
    return b


def run_history(binary, hist, timeout=30):
    try:
        p = subprocess.run([binary, "-e", hist], capture_output=True, text=True, timeout=timeout, env=ENV)
        return p.returncode, p.stdout, p.stderr
    except subprocess.TimeoutExpired:
        return -99, "", "timeout"


def observed(out, rc, err):
    obs = [l for l in out.splitlines() if l.startswith("OBSERVED")]
    if rc not in (0, 1):
        obs.append(f"OBSERVED CRASH exit={rc} {err.strip().splitlines()[-1] if err.strip() else ''}")
    return obs


def witness_fails(binary, finding, log):
    rc, out, err = run_history(binary, finding["history"])
    want = finding.get("expect", {})
    obs = observed(out, rc, err)
    end = [l for l in out.splitlines() if l.startswith("END")]
    ok = False
    if want.get("observed"):
        ok = any(want["observed"] in l for l in obs)
    if want.get("end_contains"):
        ok = ok or any(want["end_contains"] in l for l in end)
    if want.get("crash"):
        ok = ok or rc not in (0, 1)
    log(f"  [replay] finding {finding['id']}: witness `{finding['history']}` -> {'still fails' if ok else 'no longer fails'}: {(obs + end)[:2]}")
    return ok


def search_failing_input(binary, prop, kf, seed, log, budget=12000):
    """random small histories that respect the adoption precondition; returns the first that the real crate
    gets wrong (shortest of those found), or None"""
    import explore
    rng = random.Random(1000 + seed)
    hists = []
    for i in range(budget):
        hists.append(explore.gen(rng, rng.randint(1, 4 if i % 4 == 0 else 3), rng.randint(2, 16 if i % 4 == 0 else 12), stale=False, loopback=(i % 3 == 0), unrecorded=(i % 2 == 0)))
    from concurrent.futures import ThreadPoolExecutor
    bad = []
    with ThreadPoolExecutor(16) as ex:
        for h, (rc, out, err) in zip(hists, ex.map(lambda h: run_history(binary, h), hists)):
            obs = observed(out, rc, err)
            if obs:
                bad.append((len(h), h, obs))
    if not bad:
        log(f"  [replay] no failing input among {len(hists)} generated histories")
        return None
    bad.sort()
    _, h, obs = bad[0]
    return {"history": h, "observed": obs, "searched": len(hists), "failing": len(bad)}


def replay_file(path, log):
    rep = json.load(open(path))
    with common.Scratch("replay") as sc:
        b = build(sc, log)
        if rep.get("failing_input") and b:
            rc, out, err = run_history(b, rep["failing_input"]["history"])
            log(out)
            obs = observed(out, rc, err)
            if obs:
                log(f"VIOLATION property={rep['property']} replay={path}")
                return 1
            log("failing input no longer fails on the current tree")
            return 0
    log("no failing input recorded (no-failing-input-found); re-running the failed obligations:")
    vias = []
    for o in rep.get("failed_obligations", []):
        log(f"  {o['id']} via {o['via']}: {o['reason'][:300]}")
        vias.append(o["via"].split("@")[0])
    if not vias:
        return 0
    cmd = [os.path.join(VERIF, "bin", "check"), rep["property"], "--tier", rep.get("tier", "quick"), "--only", ",".join(sorted(set(vias)))]
    p = subprocess.run(cmd, env=ENV)
    return p.returncode

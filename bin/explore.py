#!/usr/bin/env python3
"""Development aid (NOT a registered check): random small histories that respect
the adoption precondition, replayed on the real crate through replay/.  Used to
find out which contract clauses are true of a tree before trying to prove them,
and as the counterexample finder for obligations the verifiers refute without
a model.  usage: explore.py <replay-binary> [--n N] [--seed S] [--stale] [--loopback] [--objs K] [--ops M]"""
import argparse, random, subprocess, sys, os
from concurrent.futures import ThreadPoolExecutor


def gen(rng, nobj, nops, stale=False, loopback=False, unrecorded=True, weak=True):
    ops = []
    H = []      # handle index -> obj or None
    W = []
    slots = {}  # obj -> list of (target or None, recorded)
    alive = set()

    def handles_to(o):
        return [i for i, t in enumerate(H) if t == o]

    def any_handle():
        c = [i for i, t in enumerate(H) if t is not None]
        return rng.choice(c) if c else None

    for o in range(nobj):
        ops.append("new"); H.append(o); slots[o] = []
    for _ in range(nops):
        r = rng.random()
        h = any_handle()
        if h is None:
            break
        if r < 0.40:
            # link: owner H[h] gets a handle to target of another handle
            t = any_handle()
            ops.append(f"clone {t}"); H.append(H[t]); k = len(H) - 1
            rec = (not unrecorded) or rng.random() < 0.8
            if rec:
                ops.append(f"adopt {h} {k}")
            ops.append(f"store {h} {k}"); slots[H[h]].append((H[k], rec)); H[k] = None
        elif r < 0.50:
            o = H[h]
            cand = [i for i, s in enumerate(slots[o]) if s[0] is not None]
            if cand:
                s = rng.choice(cand)
                tgt, rec = slots[o][s]
                ops.append(f"take {h} {s}"); H.append(tgt); k = len(H) - 1
                slots[o][s] = (None, False)
                if rec and not (stale and rng.random() < 0.5):
                    ops.append(f"unadopt {h} {k}")
                if rng.random() < 0.7:
                    ops.append(f"drop {k}"); H[k] = None
        elif r < 0.75:
            ops.append(f"drop {h}"); H[h] = None
        elif r < 0.80:
            ops.append(f"clone {h}"); H.append(H[h])
        elif r < 0.84 and loopback:
            ops.append(f"adopt {h} {h}")
        elif r < 0.88:
            # redundant unadopt
            t = any_handle()
            if t is not None and H[t] != H[h] and not any(s[0] == H[t] and s[1] for s in slots[H[h]]):
                ops.append(f"unadopt {h} {t}")
        elif weak and r < 0.94:
            ops.append(f"watch {h}"); W.append(H[h]); W.append(None)
        elif weak and W:
            w = rng.randrange(len(W))
            if W[w] is not None:
                if rng.random() < 0.5:
                    ops.append(f"upgrade {w}"); H.append(None)  # replay decides whether it is Some
                    # we cannot know statically if it is alive; do not use the handle further
                else:
                    ops.append(f"wdrop {w}"); W[w] = None
    # drop every remaining program handle
    for i, t in enumerate(H):
        if t is not None:
            ops.append(f"drop {i}")
    return "; ".join(ops)


def run(binary, hist, timeout=20):
    try:
        p = subprocess.run([binary, "-e", hist], capture_output=True, text=True, timeout=timeout,
                           env=dict(os.environ, RUST_BACKTRACE="0"))
        return p.returncode, p.stdout, p.stderr
    except subprocess.TimeoutExpired:
        return -99, "", "timeout"


def main():
    ap = argparse.ArgumentParser()
    ap.add_argument("binary")
    ap.add_argument("--n", type=int, default=2000)
    ap.add_argument("--seed", type=int, default=1)
    ap.add_argument("--objs", type=int, default=3)
    ap.add_argument("--ops", type=int, default=10)
    ap.add_argument("--stale", action="store_true")
    ap.add_argument("--loopback", action="store_true")
    ap.add_argument("--all-recorded", action="store_true")
    ap.add_argument("--leaks", action="store_true", help="report unreachable-but-alive at end (C03) for all-recorded histories")
    ap.add_argument("--show", type=int, default=5)
    a = ap.parse_args()
    rng = random.Random(a.seed)
    hists = [gen(rng, rng.randint(1, a.objs), rng.randint(2, a.ops), a.stale, a.loopback, not a.all_recorded) for _ in range(a.n)]
    bad = []
    with ThreadPoolExecutor(16) as ex:
        for hist, (rc, out, err) in zip(hists, ex.map(lambda h: run(a.binary, h), hists)):
            kinds = sorted(set(l.split()[1] for l in out.splitlines() if l.startswith("OBSERVED")))
            leak = [l for l in out.splitlines() if l.startswith("END") and "unreachable_but_alive=[]" not in l]
            if rc not in (0,) or (a.leaks and leak):
                bad.append((len(hist), hist, rc, kinds, leak, err.strip().splitlines()[-3:] if rc not in (0, 1) else []))
    bad.sort()
    print(f"{len(hists)} histories, {len(bad)} flagged")
    from collections import Counter
    print(Counter((rc, tuple(k), bool(l)) for _, _, rc, k, l, _ in bad))
    for _, hist, rc, kinds, leak, err in bad[: a.show]:
        print("---", rc, kinds, leak, err)
        print(hist)


if __name__ == "__main__":
    main()

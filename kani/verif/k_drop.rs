//! U5 (drop dispatch) and U6 (teardown) harnesses.  This module is a child of
//! `drop.rs`, so it can call the private teardown functions directly.
#![allow(dead_code, unused_imports, static_mut_refs)]
use super::*;
use crate::hash::HashMap;
use crate::link::Link;
use crate::rc::RcInnerPtr;
use crate::verif::util::*;
use crate::Rc;

// ------------------------------------------------------------ U5 dispatch
// Call log of the four callees of `Rc::drop`; each stub *is* the callee's
// frame as far as dispatch is concerned (it records the call and does nothing).
static mut CALLS_DU: u8 = 0;
static mut CALLS_DUA: u8 = 0;
static mut CALLS_DC: u8 = 0;
static mut CALLS_OC: u8 = 0;
static mut OC_SOME: bool = false;

unsafe fn stub_du<T>(_this: &mut Rc<T>) {
    CALLS_DU += 1;
}
unsafe fn stub_dua<T>(_this: &mut Rc<T>) {
    CALLS_DUA += 1;
}
unsafe fn stub_dc<T>(_cycle: HashMap<Link<T>, usize>) {
    CALLS_DC += 1;
}
fn stub_oc<T>(_this: &Rc<T>) -> Option<HashMap<Link<T>, usize>> {
    unsafe {
        CALLS_OC += 1;
        if OC_SOME {
            Some(HashMap::default())
        } else {
            None
        }
    }
}

/// `Rc::drop` over ALL counter values, with and without a table entry of any kind.
#[kani::proof]
#[kani::unwind(8)]
#[kani::stub(crate::drop::drop_unreachable, stub_du)]
#[kani::stub(crate::drop::drop_unreachable_with_adoptions, stub_dua)]
#[kani::stub(crate::drop::drop_cycle, stub_dc)]
#[kani::stub(crate::rc::Rc::orphaned_cycle, stub_oc)]
fn u5_dispatch() {
    let a = Rc::new(7u8);
    let (s, w): (usize, usize) = (kani::any(), kani::any());
    set_counts(&a, s, w);
    let has_link: bool = kani::any();
    if has_link {
        let k: u8 = kani::any();
        let l = match k % 3 {
            0 => fwd(&a),
            1 => bwd(&a),
            _ => lpb(&a),
        };
        let c: usize = kani::any();
        kani::assume(c >= 1);
        install(&a, l, c);
    }
    unsafe {
        OC_SOME = kani::any();
    }
    let b = alias(&a);
    let tables_before = unsafe { crate::verif::vmap::LIVE_TABLES };
    drop(b);
    let tables_after = unsafe { crate::verif::vmap::LIVE_TABLES };
    let (du, dua, dc, oc) = unsafe { (CALLS_DU, CALLS_DUA, CALLS_DC, CALLS_OC) };
    kani::assert(a.inner().weak() == w, "U5.frame.weak_unchanged");
    if s == 0 || s == MAX {
        kani::assert(a.inner().strong() == s, "U5.dead_handle.no_write");
        kani::assert(du == 0 && dua == 0 && dc == 0 && oc == 0, "U5.dead_handle.no_call");
    } else {
        kani::assert(a.inner().strong() == s - 1, "U5.live.strong_minus_one");
        if !has_link {
            kani::assert(oc == 0 && dc == 0 && dua == 0, "U5.empty_table.no_trace_no_group_teardown");
            kani::assert(tables_after == tables_before, "U5.empty_table.no_table_constructed");
            kani::assert(du == (if s == 1 { 1 } else { 0 }), "U5.empty_table.drop_unreachable_iff_now_zero");
        } else if s == 1 {
            kani::assert(dua == 1 && du == 0 && oc == 0 && dc == 0, "U5.links_zero.drop_unreachable_with_adoptions_once");
        } else {
            kani::assert(oc == 1 && du == 0 && dua == 0, "U5.links_alive.trace_exactly_once");
            kani::assert(dc == (if unsafe { OC_SOME } { 1 } else { 0 }), "U5.links_alive.drop_cycle_iff_orphaned");
        }
    }
    kani::assert(borrow_free(&a), "U5.no_table_borrow_left");
    core::mem::forget(a);
}

// ------------------------------------------------------------ U6 teardown
// Payload with a destructor: the call-out observer.  It performs no API action itself; it asserts the
// call-out invariant as a state predicate, read through accessors, and counts destructor runs.
use crate::rc::RcBox;
use crate::verif::vmap;

static mut PROBE_DROPS: usize = 0;
static mut REG: *const RcBox<Probe> = core::ptr::null();
static mut REG_PEER: *const RcBox<Probe> = core::ptr::null();
static mut EXPECT_WEAK: usize = 0;
/// when set, the value's destructor releases one Weak handle to the dying object (as a value that owns a
/// Weak to its own allocation does): the smallest call-out *action* that teardown code must tolerate
static mut PROBE_DROPS_A_WEAK: bool = false;

pub struct Probe(u8);

impl Drop for Probe {
    fn drop(&mut self) {
        unsafe {
            PROBE_DROPS += 1;
            let b = &*REG;
            // the dying object is already marked Gone, is still allocated (this read is checked), and its
            // implicit weak has not been released yet
            kani::assert(b.is_uninit(), "U6.callout.dying_object_already_gone");
            kani::assert(b.weak() == EXPECT_WEAK, "U6.callout.implicit_weak_not_yet_released");
            if PROBE_DROPS_A_WEAK {
                // Weak::drop on a non-last weak: weak-1, no release (the implicit weak is still held)
                b.dec_weak();
            }
            if !REG_PEER.is_null() {
                let p = &*REG_PEER;
                // no table borrow is outstanding on the peer, and the peer no longer names the dying object
                kani::assert(p.links().try_borrow_mut().is_ok(), "U6.callout.no_borrow_outstanding_on_peer");
                let t = p.links().borrow();
                kani::assert(
                    t.get(Link::forward(core::ptr::NonNull::new_unchecked(REG as *mut _))) == 0
                        && t.get(Link::backward(core::ptr::NonNull::new_unchecked(REG as *mut _))) == 0,
                    "U6.callout.peer_no_longer_names_dying_object",
                );
            }
        }
    }
}

fn tag_table<T>(rc: &Rc<T>, tag: u8) {
    links_of(rc).borrow_mut().set_tag(tag);
}

/// drop_unreachable: value destroyed exactly once after the sentinel is set; table storage released once;
/// weak-1; allocation kept while other Weak handles exist.
#[kani::proof]
#[kani::unwind(6)]
fn u6_drop_unreachable_keeps() {
    let a = Rc::new(Probe(3));
    let w: usize = kani::any();
    kani::assume(w >= 2);
    set_counts(&a, 0, w);
    tag_table(&a, 1);
    unsafe {
        REG = a.ptr.as_ptr();
        EXPECT_WEAK = w;
    }
    let mut h = alias(&a);
    unsafe { drop_unreachable(&mut h) };
    core::mem::forget(h);
    kani::assert(unsafe { PROBE_DROPS } == 1, "U6.drop_unreachable.value_destroyed_exactly_once");
    kani::assert(unsafe { vmap::TAGGED_DROPS } == 1, "U6.drop_unreachable.table_storage_released_exactly_once");
    kani::assert(a.inner().is_uninit(), "U6.drop_unreachable.ends_gone");
    kani::assert(a.inner().weak() == w - 1, "U6.drop_unreachable.weak_minus_one");
    core::mem::forget(a);
}

#[kani::proof]
#[kani::unwind(6)]
fn u6_drop_unreachable_releases() {
    let a = Rc::new(Probe(3));
    set_counts(&a, 0, 1);
    tag_table(&a, 1);
    let p = a.ptr.as_ptr();
    unsafe {
        REG = p;
        EXPECT_WEAK = 1;
    }
    let mut h = alias(&a);
    core::mem::forget(a);
    unsafe { drop_unreachable(&mut h) };
    core::mem::forget(h);
    kani::assert(unsafe { PROBE_DROPS } == 1, "U6.drop_unreachable.value_destroyed_exactly_once");
    kani::assert(unsafe { vmap::TAGGED_DROPS } == 1, "U6.drop_unreachable.table_storage_released_exactly_once");
    let probe = unsafe { *(p as *const usize) };
    kani::assert(probe == 0 || probe != 0, "PROBE-AFTER-RELEASE");
}

/// Pre-state of the two-object zero-count teardown: x is dying (strong 0), p is a live peer.
/// Structure: `xf`/`xb` = multiplicity of Forward(p)/Backward(p) in x's table, mirrored in p's table as
/// Backward(x)/Forward(x) (I2); `pself` = an unrelated record in p's table (frame).
struct Pre2 {
    wx: usize,
    sp: usize,
    wp: usize,
    xf: usize,
    xb: usize,
    pself: usize,
}

fn setup2(x: &Rc<Probe>, p: &Rc<Probe>, xf: usize, xb: usize, pself: usize) -> Pre2 {
    let pre = Pre2 { wx: kani::any(), sp: kani::any(), wp: kani::any(), xf, xb, pself };
    kani::assume(pre.wx >= 1);
    set_counts(x, 0, pre.wx);
    set_counts(p, pre.sp, pre.wp);
    install(x, fwd(p), xf);
    install(p, bwd(x), xf);
    install(x, bwd(p), xb);
    install(p, fwd(x), xb);
    install(p, lpb(p), pre.pself);
    tag_table(x, 1);
    unsafe {
        REG = x.ptr.as_ptr();
        REG_PEER = p.ptr.as_ptr();
        EXPECT_WEAK = pre.wx;
    }
    pre
}

fn check2(x: &Rc<Probe>, p: &Rc<Probe>, pre: &Pre2) {
    kani::assert(unsafe { PROBE_DROPS } == 1, "U6.dua.value_destroyed_exactly_once");
    kani::assert(unsafe { vmap::TAGGED_DROPS } == 1, "U6.dua.own_table_storage_released_exactly_once");
    // whole-view postcondition on the peer: exactly the records involving x disappear
    kani::assert(cnt(p, fwd(x)) == 0 && cnt(p, bwd(x)) == 0, "U6.dua.peer_loses_every_record_of_dying_object");
    kani::assert(cnt(p, lpb(p)) == pre.pself && table_len(p) == (if pre.pself > 0 { 1 } else { 0 }), "U6.dua.peer_other_records_untouched");
    kani::assert(p.inner().strong() == pre.sp && p.inner().weak() == pre.wp, "U6.dua.peer_counters_untouched");
    kani::assert(borrow_free(p), "U6.dua.no_borrow_left_on_peer");
}

fn run_dua_keeps(xf: usize, xb: usize, pself: usize) {
    let x = Rc::new(Probe(1));
    let p = Rc::new(Probe(2));
    let pre = setup2(&x, &p, xf, xb, pself);
    kani::assume(pre.wx >= 2);
    let mut h = alias(&x);
    unsafe { drop_unreachable_with_adoptions(&mut h) };
    core::mem::forget(h);
    check2(&x, &p, &pre);
    kani::assert(x.inner().is_uninit(), "U6.dua.ends_gone");
    kani::assert(x.inner().weak() == pre.wx - 1, "U6.dua.weak_minus_one");
    core::mem::forget((x, p));
}

/// x adopts p (any multiplicity)
#[kani::proof]
#[kani::unwind(6)]
fn u6_dua_owner_dies() {
    let k: usize = kani::any();
    kani::assume(k >= 1);
    run_dua_keeps(k, 0, kani::any());
}

/// p has a (stale) adoption of x (any multiplicity): the dying adoptee purges itself from its former adopter
#[kani::proof]
#[kani::unwind(6)]
fn u6_dua_adoptee_dies() {
    let k: usize = kani::any();
    kani::assume(k >= 1);
    run_dua_keeps(0, k, kani::any());
}

/// mutual adoption with independent multiplicities
#[kani::proof]
#[kani::unwind(6)]
fn u6_dua_mutual() {
    let (k1, k2): (usize, usize) = (kani::any(), kani::any());
    kani::assume(k1 >= 1 && k2 >= 1);
    run_dua_keeps(k1, k2, kani::any());
}

/// last weak: the allocation is released
#[kani::proof]
#[kani::unwind(6)]
fn u6_dua_releases() {
    let x = Rc::new(Probe(1));
    let p = Rc::new(Probe(2));
    let (k1, k2): (usize, usize) = (kani::any(), kani::any());
    let pre = setup2(&x, &p, k1, k2, kani::any());
    kani::assume(pre.wx == 1 && (k1 >= 1 || k2 >= 1));
    let raw = x.ptr.as_ptr();
    let mut h = alias(&x);
    unsafe { drop_unreachable_with_adoptions(&mut h) };
    core::mem::forget(h);
    kani::assert(unsafe { PROBE_DROPS } == 1, "U6.dua.value_destroyed_exactly_once");
    kani::assert(cnt(&p, Link::forward(unsafe { core::ptr::NonNull::new_unchecked(raw) })) == 0, "U6.dua.peer_loses_every_record_of_dying_object");
    core::mem::forget((x, p));
    let probe = unsafe { *(raw as *const usize) };
    kani::assert(probe == 0 || probe != 0, "PROBE-AFTER-RELEASE");
}

/// self-adoption (through a clone and through the same handle) on the zero-count path
#[kani::proof]
#[kani::unwind(6)]
fn u6_dua_self_adopted() {
    let x = Rc::new(Probe(1));
    let (w, f, l): (usize, usize, usize) = (kani::any(), kani::any(), kani::any());
    kani::assume(w >= 2 && (f >= 1 || l >= 1));
    set_counts(&x, 0, w);
    install(&x, fwd(&x), f);
    install(&x, bwd(&x), f);
    install(&x, lpb(&x), l);
    tag_table(&x, 1);
    unsafe {
        REG = x.ptr.as_ptr();
        EXPECT_WEAK = w;
    }
    let mut h = alias(&x);
    unsafe { drop_unreachable_with_adoptions(&mut h) };
    core::mem::forget(h);
    kani::assert(unsafe { PROBE_DROPS } == 1, "U6.dua.value_destroyed_exactly_once");
    kani::assert(unsafe { vmap::TAGGED_DROPS } == 1, "U6.dua.own_table_storage_released_exactly_once");
    kani::assert(x.inner().is_uninit() && x.inner().weak() == w - 1, "U6.dua.ends_gone_weak_minus_one");
    core::mem::forget(x);
}

// ------------------------------------------------------------ U6 drop_cycle (group teardown)
// Payload u8 (a payload with a Drop impl does not fit in CBMC's memory here); the call-out states are
// observed from the table stand-in's Drop, which runs at the same program point as the members' values
// are destroyed (`drop(inners)`).
fn register_member<T>(i: usize, rc: &Rc<T>, expect_weak: usize) {
    unsafe {
        vmap::OBS_STRONG[i] = rc.inner().strong_ref() as *const _;
        vmap::OBS_WEAK[i] = rc.inner().weak_ref() as *const _;
        vmap::OBS_EXPECT_WEAK[i] = expect_weak;
    }
}

fn ring2(ca: usize, cb: usize, sa: usize, sb: usize, wa: usize, wb: usize) -> (Rc<u8>, Rc<u8>, HashMap<Link<u8>, usize>) {
    let a = Rc::new(1u8);
    let b = Rc::new(2u8);
    set_counts(&a, sa, wa);
    set_counts(&b, sb, wb);
    // a holds b (cb records), b holds a (ca records)
    install(&a, fwd(&b), cb);
    install(&b, bwd(&a), cb);
    install(&b, fwd(&a), ca);
    install(&a, bwd(&b), ca);
    tag_table(&a, 1);
    tag_table(&b, 2);
    let mut m: HashMap<Link<u8>, usize> = HashMap::default();
    m.insert(fwd(&a), ca);
    m.insert(fwd(&b), cb);
    register_member(0, &a, wa);
    register_member(1, &b, wb);
    (a, b, m)
}

fn run_ring2(ca: usize, cb: usize, sa: usize, sb: usize) {
    let (wa, wb): (usize, usize) = (kani::any(), kani::any());
    kani::assume(wa >= 2 && wb >= 2);
    let (a, b, m) = ring2(ca, cb, sa, sb, wa, wb);
    let c = Rc::new(9u8);
    let (sc, wc): (usize, usize) = (kani::any(), kani::any());
    set_counts(&c, sc, wc);
    unsafe { drop_cycle(m) };
    kani::assert(a.inner().is_uninit() && b.inner().is_uninit(), "U6.drop_cycle.every_key_of_the_orphan_map_ends_gone");
    kani::assert(a.inner().weak() == wa - 1 && b.inner().weak() == wb - 1, "U6.drop_cycle.each_member_weak_minus_one_exactly_once");
    kani::assert(unsafe { vmap::TAGGED_DROPS } == 2, "U6.drop_cycle.each_member_table_released_exactly_once");
    kani::assert(c.inner().strong() == sc && c.inner().weak() == wc, "U6.drop_cycle.frame.non_member_counters_untouched");
    core::mem::forget((a, b, c));
}

/// symmetric two-member ring, one recorded handle each way, weak counts (members and an outsider's
/// counters) symbolic: every key ends Gone, all members Gone before the first call-out, none released
/// before the last, weak-1 each, tables released once each, outsider untouched.
#[kani::proof]
#[kani::unwind(7)]
fn u6_drop_cycle_ring2() {
    run_ring2(1, 1, 1, 1);
}

/// parallel edges and an over-recorded member: a is held twice by b (strong 2), b is recorded twice but
/// held once (strong 1 < count 2)
#[kani::proof]
#[kani::unwind(7)]
fn u6_drop_cycle_ring2_parallel() {
    run_ring2(2, 2, 2, 1);
}

/// a member with more incoming than outgoing group references: a holds itself (through a clone) and b
#[kani::proof]
#[kani::unwind(7)]
fn u6_drop_cycle_unequal_degree() {
    let a = Rc::new(1u8);
    let b = Rc::new(2u8);
    let (wa, wb): (usize, usize) = (kani::any(), kani::any());
    kani::assume(wa >= 2 && wb >= 2);
    set_counts(&a, 1, wa);
    set_counts(&b, 1, wb);
    install(&a, fwd(&a), 1);
    install(&a, bwd(&a), 1);
    install(&a, fwd(&b), 1);
    install(&b, bwd(&a), 1);
    tag_table(&a, 1);
    tag_table(&b, 2);
    let mut m: HashMap<Link<u8>, usize> = HashMap::default();
    m.insert(fwd(&a), 1);
    m.insert(fwd(&b), 1);
    register_member(0, &a, wa);
    register_member(1, &b, wb);
    let c = Rc::new(9u8);
    let (sc, wc): (usize, usize) = (kani::any(), kani::any());
    set_counts(&c, sc, wc);
    unsafe { drop_cycle(m) };
    kani::assert(a.inner().is_uninit() && b.inner().is_uninit(), "U6.drop_cycle.every_key_of_the_orphan_map_ends_gone");
    kani::assert(a.inner().weak() == wa - 1 && b.inner().weak() == wb - 1, "U6.drop_cycle.each_member_weak_minus_one_exactly_once");
    kani::assert(unsafe { vmap::TAGGED_DROPS } == 2, "U6.drop_cycle.each_member_table_released_exactly_once");
    kani::assert(c.inner().strong() == sc && c.inner().weak() == wc, "U6.drop_cycle.frame.non_member_counters_untouched");
    core::mem::forget((a, b, c));
}

/// last Weak gone: the member allocations are released (probe)
#[kani::proof]
#[kani::unwind(7)]
fn u6_drop_cycle_releases() {
    let (a, b, m) = ring2(1, 1, 1, 1, 1, 2);
    let raw = a.ptr.as_ptr();
    unsafe { drop_cycle(m) };
    kani::assert(b.inner().is_uninit() && b.inner().weak() == 1, "U6.drop_cycle.member_with_weak_left_is_kept");
    core::mem::forget((a, b));
    let probe = unsafe { *(raw as *const usize) };
    kani::assert(probe == 0 || probe != 0, "PROBE-AFTER-RELEASE");
}

// ------------------------------------------------------------ zero-count teardown, u8 payload variants
// Same whole-view postconditions as the Probe variants, without a value destructor (cheaper); the call-out
// invariant is asserted by the Probe variants.
fn run_dua_u8(xf: usize, xb: usize) {
    let x = Rc::new(1u8);
    let p = Rc::new(2u8);
    let (wx, sp, wp, pself): (usize, usize, usize, usize) = (kani::any(), kani::any(), kani::any(), kani::any());
    kani::assume(wx >= 2);
    set_counts(&x, 0, wx);
    set_counts(&p, sp, wp);
    install(&x, fwd(&p), xf);
    install(&p, bwd(&x), xf);
    install(&x, bwd(&p), xb);
    install(&p, fwd(&x), xb);
    install(&p, lpb(&p), pself);
    tag_table(&x, 1);
    let mut h = alias(&x);
    unsafe { drop_unreachable_with_adoptions(&mut h) };
    core::mem::forget(h);
    kani::assert(unsafe { vmap::TAGGED_DROPS } == 1, "U6.dua.own_table_storage_released_exactly_once");
    kani::assert(cnt(&p, fwd(&x)) == 0 && cnt(&p, bwd(&x)) == 0, "U6.dua.peer_loses_every_record_of_dying_object");
    kani::assert(cnt(&p, lpb(&p)) == pself && table_len(&p) == (if pself > 0 { 1 } else { 0 }), "U6.dua.peer_other_records_untouched");
    kani::assert(p.inner().strong() == sp && p.inner().weak() == wp, "U6.dua.peer_counters_untouched");
    kani::assert(borrow_free(&p), "U6.dua.no_borrow_left_on_peer");
    kani::assert(x.inner().is_uninit() && x.inner().weak() == wx - 1, "U6.dua.ends_gone_weak_minus_one");
    core::mem::forget((x, p));
}

#[kani::proof]
#[kani::unwind(6)]
fn u6_dua_mutual_u8() {
    let (k1, k2): (usize, usize) = (kani::any(), kani::any());
    kani::assume(k1 >= 1 && k2 >= 1);
    run_dua_u8(k1, k2);
}

// concrete-multiplicity instances of the zero-count teardown (quick tier; the symbolic-multiplicity
// harnesses above are the thorough tier)
#[kani::proof]
#[kani::unwind(6)]
fn u6_dua_mutual_2_1() {
    run_dua_keeps(2, 1, 1);
}

#[kani::proof]
#[kani::unwind(6)]
fn u6_dua_mutual_1_2() {
    run_dua_keeps(1, 2, 1);
}

#[kani::proof]
#[kani::unwind(6)]
fn u6_dua_owner_dies_2() {
    run_dua_keeps(2, 0, 1);
}

#[kani::proof]
#[kani::unwind(6)]
fn u6_dua_adoptee_dies_2() {
    run_dua_keeps(0, 2, 1);
}

/// last weak on the zero-count path, concrete structure (quick tier)
#[kani::proof]
#[kani::unwind(6)]
fn u6_dua_releases_1_1() {
    let x = Rc::new(Probe(1));
    let p = Rc::new(Probe(2));
    let pre = setup2(&x, &p, 1, 1, 1);
    kani::assume(pre.wx == 1);
    let raw = x.ptr.as_ptr();
    let mut h = alias(&x);
    unsafe { drop_unreachable_with_adoptions(&mut h) };
    core::mem::forget(h);
    kani::assert(unsafe { PROBE_DROPS } == 1, "U6.dua.value_destroyed_exactly_once");
    kani::assert(cnt(&p, Link::forward(unsafe { core::ptr::NonNull::new_unchecked(raw) })) == 0, "U6.dua.peer_loses_every_record_of_dying_object");
    core::mem::forget((x, p));
    let probe = unsafe { *(raw as *const usize) };
    kani::assert(probe == 0 || probe != 0, "PROBE-AFTER-RELEASE");
}

/// self-adoption through a clone and through the same handle, concrete multiplicities (quick tier)
#[kani::proof]
#[kani::unwind(6)]
fn u6_dua_self_adopted_1_1() {
    let x = Rc::new(Probe(1));
    let w: usize = kani::any();
    kani::assume(w >= 2);
    set_counts(&x, 0, w);
    install(&x, fwd(&x), 1);
    install(&x, bwd(&x), 1);
    install(&x, lpb(&x), 1);
    tag_table(&x, 1);
    unsafe {
        REG = x.ptr.as_ptr();
        EXPECT_WEAK = w;
    }
    let mut h = alias(&x);
    unsafe { drop_unreachable_with_adoptions(&mut h) };
    core::mem::forget(h);
    kani::assert(unsafe { PROBE_DROPS } == 1, "U6.dua.value_destroyed_exactly_once");
    kani::assert(unsafe { vmap::TAGGED_DROPS } == 1, "U6.dua.own_table_storage_released_exactly_once");
    kani::assert(x.inner().is_uninit() && x.inner().weak() == w - 1, "U6.dua.ends_gone_weak_minus_one");
    core::mem::forget(x);
}

/// three-member ring a -> b -> c -> a (thorough tier)
#[kani::proof]
#[kani::unwind(7)]
fn u6_drop_cycle_ring3() {
    let a = Rc::new(1u8);
    let b = Rc::new(2u8);
    let c = Rc::new(3u8);
    let (wa, wb, wc): (usize, usize, usize) = (kani::any(), kani::any(), kani::any());
    kani::assume(wa >= 2 && wb >= 2 && wc >= 2);
    set_counts(&a, 1, wa);
    set_counts(&b, 1, wb);
    set_counts(&c, 1, wc);
    install(&a, fwd(&b), 1);
    install(&b, bwd(&a), 1);
    install(&b, fwd(&c), 1);
    install(&c, bwd(&b), 1);
    install(&c, fwd(&a), 1);
    install(&a, bwd(&c), 1);
    tag_table(&a, 1);
    tag_table(&b, 2);
    tag_table(&c, 3);
    let mut m: HashMap<Link<u8>, usize> = HashMap::default();
    m.insert(fwd(&a), 1);
    m.insert(fwd(&b), 1);
    m.insert(fwd(&c), 1);
    register_member(0, &a, wa);
    register_member(1, &b, wb);
    register_member(2, &c, wc);
    unsafe { drop_cycle(m) };
    kani::assert(a.inner().is_uninit() && b.inner().is_uninit() && c.inner().is_uninit(), "U6.drop_cycle.every_key_of_the_orphan_map_ends_gone");
    kani::assert(a.inner().weak() == wa - 1 && b.inner().weak() == wb - 1 && c.inner().weak() == wc - 1, "U6.drop_cycle.each_member_weak_minus_one_exactly_once");
    kani::assert(unsafe { vmap::TAGGED_DROPS } == 3, "U6.drop_cycle.each_member_table_released_exactly_once");
    core::mem::forget((a, b, c));
}

/// the dying value owns the last real Weak to its own allocation and drops it in its destructor: the
/// allocation must be released by the teardown (weak: 2 = implicit + that Weak)
#[kani::proof]
#[kani::unwind(6)]
fn u6_drop_unreachable_value_drops_last_weak() {
    let a = Rc::new(Probe(3));
    set_counts(&a, 0, 2);
    let p = a.ptr.as_ptr();
    unsafe {
        REG = p;
        EXPECT_WEAK = 2;
        PROBE_DROPS_A_WEAK = true;
    }
    let mut h = alias(&a);
    core::mem::forget(a);
    unsafe { drop_unreachable(&mut h) };
    core::mem::forget(h);
    kani::assert(unsafe { PROBE_DROPS } == 1, "U6.drop_unreachable.value_destroyed_exactly_once");
    let probe = unsafe { *(p as *const usize) };
    kani::assert(probe == 0 || probe != 0, "PROBE-AFTER-RELEASE");
}

#[kani::proof]
#[kani::unwind(6)]
fn u6_dua_value_drops_last_weak() {
    let x = Rc::new(Probe(1));
    let p = Rc::new(Probe(2));
    let pre = setup2(&x, &p, 1, 0, 1);
    kani::assume(pre.wx == 2);
    unsafe {
        PROBE_DROPS_A_WEAK = true;
    }
    let raw = x.ptr.as_ptr();
    let mut h = alias(&x);
    unsafe { drop_unreachable_with_adoptions(&mut h) };
    core::mem::forget(h);
    kani::assert(unsafe { PROBE_DROPS } == 1, "U6.dua.value_destroyed_exactly_once");
    core::mem::forget((x, p));
    let probe = unsafe { *(raw as *const usize) };
    kani::assert(probe == 0 || probe != 0, "PROBE-AFTER-RELEASE");
}

/// the dying object has a record of itself *before* its record of a peer in table order: the purge must
/// skip its own entry and still reach the peer
#[kani::proof]
#[kani::unwind(6)]
fn u6_dua_self_entry_then_peer() {
    let x = Rc::new(Probe(1));
    let p = Rc::new(Probe(2));
    let (wx, sp, wp): (usize, usize, usize) = (kani::any(), kani::any(), kani::any());
    kani::assume(wx >= 2);
    set_counts(&x, 0, wx);
    set_counts(&p, sp, wp);
    install(&x, lpb(&x), 1);
    install(&x, fwd(&p), 1);
    install(&p, bwd(&x), 1);
    tag_table(&x, 1);
    unsafe {
        REG = x.ptr.as_ptr();
        REG_PEER = p.ptr.as_ptr();
        EXPECT_WEAK = wx;
    }
    let mut h = alias(&x);
    unsafe { drop_unreachable_with_adoptions(&mut h) };
    core::mem::forget(h);
    kani::assert(cnt(&p, bwd(&x)) == 0 && cnt(&p, fwd(&x)) == 0 && table_len(&p) == 0, "U6.dua.peer_loses_every_record_of_dying_object");
    kani::assert(p.inner().strong() == sp && p.inner().weak() == wp, "U6.dua.peer_counters_untouched");
    kani::assert(x.inner().is_uninit() && x.inner().weak() == wx - 1, "U6.dua.ends_gone_weak_minus_one");
    core::mem::forget((x, p));
}

/// three objects (thorough tier): the dying x adopts p (twice) and is adopted by q (once, stale record):
/// both peers lose exactly their records of x, their other records and counters stay
#[kani::proof]
#[kani::unwind(6)]
fn u6_dua_two_peers() {
    let x = Rc::new(Probe(1));
    let p = Rc::new(Probe(2));
    let q = Rc::new(Probe(3));
    let (wx, sp, wp, sq, wq): (usize, usize, usize, usize, usize) = (kani::any(), kani::any(), kani::any(), kani::any(), kani::any());
    kani::assume(wx >= 2);
    set_counts(&x, 0, wx);
    set_counts(&p, sp, wp);
    set_counts(&q, sq, wq);
    install(&x, fwd(&p), 2);
    install(&p, bwd(&x), 2);
    install(&q, fwd(&x), 1);
    install(&x, bwd(&q), 1);
    // an adoption between the peers that does not involve x
    install(&q, fwd(&p), 1);
    install(&p, bwd(&q), 1);
    tag_table(&x, 1);
    unsafe {
        REG = x.ptr.as_ptr();
        REG_PEER = p.ptr.as_ptr();
        EXPECT_WEAK = wx;
    }
    let mut h = alias(&x);
    unsafe { drop_unreachable_with_adoptions(&mut h) };
    core::mem::forget(h);
    kani::assert(unsafe { PROBE_DROPS } == 1, "U6.dua.value_destroyed_exactly_once");
    kani::assert(cnt(&p, bwd(&x)) == 0 && cnt(&p, fwd(&x)) == 0 && cnt(&q, fwd(&x)) == 0 && cnt(&q, bwd(&x)) == 0, "U6.dua.peer_loses_every_record_of_dying_object");
    kani::assert(cnt(&q, fwd(&p)) == 1 && cnt(&p, bwd(&q)) == 1 && table_len(&p) == 1 && table_len(&q) == 1, "U6.dua.peer_other_records_untouched");
    kani::assert(p.inner().strong() == sp && p.inner().weak() == wp && q.inner().strong() == sq && q.inner().weak() == wq, "U6.dua.peer_counters_untouched");
    kani::assert(borrow_free(&p) && borrow_free(&q), "U6.dua.no_borrow_left_on_peer");
    kani::assert(x.inner().is_uninit() && x.inner().weak() == wx - 1, "U6.dua.ends_gone_weak_minus_one");
    core::mem::forget((x, p, q));
}

/// a member's destructor downgrades a handle to a dying peer that had no Weak so far (weak 1 = only the
/// implicit one) and keeps the new Weak: the peer's allocation must survive the collection
#[kani::proof]
#[kani::unwind(7)]
fn u6_drop_cycle_destructor_downgrades_peer() {
    let wb: usize = kani::any();
    kani::assume(wb >= 2);
    let (a, b, m) = ring2(1, 1, 1, 1, 1, wb);
    unsafe {
        vmap::OBS_INC_WEAK_ONCE[0] = true;
    }
    unsafe { drop_cycle(m) };
    // a: implicit weak released, the Weak created during the teardown remains
    kani::assert(a.inner().is_uninit() && a.inner().weak() == 1, "U6.drop_cycle.member_with_weak_created_during_teardown_is_kept");
    kani::assert(b.inner().is_uninit() && b.inner().weak() == wb - 1, "U6.drop_cycle.each_member_weak_minus_one_exactly_once");
    core::mem::forget((a, b));
}

//! U5 (drop dispatch) and U6 (teardown) harnesses.  This module is a child of
//! `drop.rs`, so it can call the private teardown functions directly.
#![allow(dead_code, unused_imports, static_mut_refs)]
use super::*;
use crate::hash::HashMap;
use crate::link::Link;
use crate::rc::RcInnerPtr;
use crate::verif::util::*;
use crate::Rc;

// ------------------------------------------------------------ U5 dispatch
// Call log of the four callees of `Rc::drop`; each stub *is* the callee's
// frame as far as dispatch is concerned (it records the call and does nothing).
static mut CALLS_DU: u8 = 0;
static mut CALLS_DUA: u8 = 0;
static mut CALLS_DC: u8 = 0;
static mut CALLS_OC: u8 = 0;
static mut OC_SOME: bool = false;

unsafe fn stub_du<T>(_this: &mut Rc<T>) {
    CALLS_DU += 1;
}
unsafe fn stub_dua<T>(_this: &mut Rc<T>) {
    CALLS_DUA += 1;
}
unsafe fn stub_dc<T>(_cycle: HashMap<Link<T>, usize>) {
    CALLS_DC += 1;
}
fn stub_oc<T>(_this: &Rc<T>) -> Option<HashMap<Link<T>, usize>> {
    unsafe {
        CALLS_OC += 1;
        if OC_SOME {
            Some(HashMap::default())
        } else {
            None
        }
    }
}

/// `Rc::drop` over ALL counter values, with and without a table entry of any kind.
#[kani::proof]
#[kani::unwind(8)]
#[kani::stub(crate::drop::drop_unreachable, stub_du)]
#[kani::stub(crate::drop::drop_unreachable_with_adoptions, stub_dua)]
#[kani::stub(crate::drop::drop_cycle, stub_dc)]
#[kani::stub(crate::rc::Rc::orphaned_cycle, stub_oc)]
fn u5_dispatch() {
    let a = Rc::new(7u8);
    let (s, w): (usize, usize) = (kani::any(), kani::any());
    set_counts(&a, s, w);
    let has_link: bool = kani::any();
    if has_link {
        let k: u8 = kani::any();
        let l = match k % 3 {
            0 => fwd(&a),
            1 => bwd(&a),
            _ => lpb(&a),
        };
        let c: usize = kani::any();
        kani::assume(c >= 1);
        install(&a, l, c);
    }
    unsafe {
        OC_SOME = kani::any();
    }
    let b = alias(&a);
    drop(b);
    let (du, dua, dc, oc) = unsafe { (CALLS_DU, CALLS_DUA, CALLS_DC, CALLS_OC) };
    assert!(a.inner().weak() == w, "U5.frame.weak_unchanged");
    if s == 0 || s == MAX {
        assert!(a.inner().strong() == s, "U5.dead_handle.no_write");
        assert!(du == 0 && dua == 0 && dc == 0 && oc == 0, "U5.dead_handle.no_call");
    } else {
        assert!(a.inner().strong() == s - 1, "U5.live.strong_minus_one");
        if !has_link {
            assert!(oc == 0 && dc == 0 && dua == 0, "U5.empty_table.no_trace_no_group_teardown");
            assert!(du == (if s == 1 { 1 } else { 0 }), "U5.empty_table.drop_unreachable_iff_now_zero");
        } else if s == 1 {
            assert!(dua == 1 && du == 0 && oc == 0 && dc == 0, "U5.links_zero.drop_unreachable_with_adoptions_once");
        } else {
            assert!(oc == 1 && du == 0 && dua == 0, "U5.links_alive.trace_exactly_once");
            assert!(dc == (if unsafe { OC_SOME } { 1 } else { 0 }), "U5.links_alive.drop_cycle_iff_orphaned");
        }
    }
    assert!(borrow_free(&a), "U5.no_table_borrow_left");
    core::mem::forget(a);
}

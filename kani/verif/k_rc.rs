//! U1 (counters) and U7 (Weak / handle API) harnesses: loop-free bodies over
//! full-domain symbolic counters -- complete proofs, not bounded ones.
#![allow(dead_code, unused_imports)]
use super::*;
use crate::verif::util::*;

fn any_counts() -> (usize, usize) {
    (kani::any(), kani::any())
}

// ---------------------------------------------------------------- U1 counters

/// inc_strong returns iff old strong is none of {0, MAX-1, MAX}; then +1 and weak untouched.
#[kani::proof]
fn u1_inc_strong_returns() {
    let a = Rc::new(0u8);
    let (s, w) = any_counts();
    kani::assume(s != 0 && s != MAX && s != MAX - 1);
    set_counts(&a, s, w);
    a.inner().inc_strong();
    assert!(a.inner().strong() == s + 1, "U1.inc_strong.post.plus_one");
    assert!(a.inner().weak() == w, "U1.inc_strong.frame.weak");
    core::mem::forget(a);
}

/// For the three forbidden values control reaches abort and never comes back.
#[kani::proof]
fn u1_inc_strong_aborts() {
    let a = Rc::new(0u8);
    let (s, w) = any_counts();
    kani::assume(s == 0 || s == MAX || s == MAX - 1);
    set_counts(&a, s, w);
    a.inner().inc_strong();
    kani::cover!(true, "RETURNED-FROM-ABORT");
    core::mem::forget(a);
}

#[kani::proof]
fn u1_dec_strong() {
    let a = Rc::new(0u8);
    let (s, w) = any_counts();
    kani::assume(s >= 1);
    set_counts(&a, s, w);
    a.inner().dec_strong();
    assert!(a.inner().strong() == s - 1, "U1.dec_strong.post.minus_one");
    assert!(a.inner().weak() == w, "U1.dec_strong.frame.weak");
    core::mem::forget(a);
}

#[kani::proof]
fn u1_inc_weak_returns() {
    let a = Rc::new(0u8);
    let (s, w) = any_counts();
    kani::assume(w != 0 && w != MAX);
    set_counts(&a, s, w);
    a.inner().inc_weak();
    assert!(a.inner().weak() == w + 1, "U1.inc_weak.post.plus_one");
    assert!(a.inner().strong() == s, "U1.inc_weak.frame.strong");
    core::mem::forget(a);
}

#[kani::proof]
fn u1_inc_weak_aborts() {
    let a = Rc::new(0u8);
    let (s, w) = any_counts();
    kani::assume(w == 0 || w == MAX);
    set_counts(&a, s, w);
    a.inner().inc_weak();
    kani::cover!(true, "RETURNED-FROM-ABORT");
    core::mem::forget(a);
}

#[kani::proof]
fn u1_dec_weak() {
    let a = Rc::new(0u8);
    let (s, w) = any_counts();
    kani::assume(w >= 1);
    set_counts(&a, s, w);
    a.inner().dec_weak();
    assert!(a.inner().weak() == w - 1, "U1.dec_weak.post.minus_one");
    assert!(a.inner().strong() == s, "U1.dec_weak.frame.strong");
    core::mem::forget(a);
}

#[kani::proof]
fn u1_predicates() {
    let a = Rc::new(0u8);
    let (s, w) = any_counts();
    set_counts(&a, s, w);
    assert!(a.inner().strong() == s, "U1.strong.reads_strong_cell");
    assert!(a.inner().weak() == w, "U1.weak.reads_weak_cell");
    assert!(a.inner().is_uninit() == (s == MAX), "U1.is_uninit.iff_sentinel");
    assert!(a.inner().is_dead() == (s == 0 || s == MAX), "U1.is_dead.iff_zero_or_sentinel");
    a.inner().make_uninit();
    assert!(a.inner().strong() == MAX, "U1.make_uninit.sets_sentinel");
    assert!(a.inner().weak() == w, "U1.make_uninit.frame.weak");
    core::mem::forget(a);
}

/// The same accessors through the `Link` and `WeakInner` implementors hit the same cells.
#[kani::proof]
fn u1_implementors_agree() {
    let a = Rc::new(0u8);
    let (s, w) = any_counts();
    set_counts(&a, s, w);
    let l = crate::link::Link::forward(a.ptr);
    assert!(l.strong() == s && l.weak() == w, "U1.link_impl.same_cells");
    let wk = Weak { ptr: a.ptr, phantom: PhantomData };
    let wi = wk.inner().unwrap();
    assert!(wi.strong() == s && wi.weak() == w, "U1.weakinner_impl.same_cells");
    core::mem::forget(wk);
    core::mem::forget(a);
}

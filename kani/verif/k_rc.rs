//! U1 (counters) and U7 (Weak / handle API) harnesses: loop-free bodies over
//! full-domain symbolic counters -- complete proofs, not bounded ones.
#![allow(dead_code, unused_imports)]
use super::*;
use crate::verif::util::*;

fn any_counts() -> (usize, usize) {
    (kani::any(), kani::any())
}

// ---------------------------------------------------------------- U1 counters

/// inc_strong returns iff old strong is none of {0, MAX-1, MAX}; then +1 and weak untouched.
#[kani::proof]
fn u1_inc_strong_returns() {
    let a = Rc::new(0u8);
    let (s, w) = any_counts();
    kani::assume(s != 0 && s != MAX && s != MAX - 1);
    set_counts(&a, s, w);
    a.inner().inc_strong();
    kani::assert(a.inner().strong() == s + 1, "U1.inc_strong.post.plus_one");
    kani::assert(a.inner().weak() == w, "U1.inc_strong.frame.weak");
    core::mem::forget(a);
}

/// For the three forbidden values control reaches abort and never comes back.
#[kani::proof]
fn u1_inc_strong_aborts() {
    let a = Rc::new(0u8);
    let (s, w) = any_counts();
    kani::assume(s == 0 || s == MAX || s == MAX - 1);
    set_counts(&a, s, w);
    a.inner().inc_strong();
    kani::cover!(true, "RETURNED-FROM-ABORT");
    core::mem::forget(a);
}

#[kani::proof]
fn u1_dec_strong() {
    let a = Rc::new(0u8);
    let (s, w) = any_counts();
    kani::assume(s >= 1);
    set_counts(&a, s, w);
    a.inner().dec_strong();
    kani::assert(a.inner().strong() == s - 1, "U1.dec_strong.post.minus_one");
    kani::assert(a.inner().weak() == w, "U1.dec_strong.frame.weak");
    core::mem::forget(a);
}

#[kani::proof]
fn u1_inc_weak_returns() {
    let a = Rc::new(0u8);
    let (s, w) = any_counts();
    kani::assume(w != 0 && w != MAX);
    set_counts(&a, s, w);
    a.inner().inc_weak();
    kani::assert(a.inner().weak() == w + 1, "U1.inc_weak.post.plus_one");
    kani::assert(a.inner().strong() == s, "U1.inc_weak.frame.strong");
    core::mem::forget(a);
}

#[kani::proof]
fn u1_inc_weak_aborts() {
    let a = Rc::new(0u8);
    let (s, w) = any_counts();
    kani::assume(w == 0 || w == MAX);
    set_counts(&a, s, w);
    a.inner().inc_weak();
    kani::cover!(true, "RETURNED-FROM-ABORT");
    core::mem::forget(a);
}

#[kani::proof]
fn u1_dec_weak() {
    let a = Rc::new(0u8);
    let (s, w) = any_counts();
    kani::assume(w >= 1);
    set_counts(&a, s, w);
    a.inner().dec_weak();
    kani::assert(a.inner().weak() == w - 1, "U1.dec_weak.post.minus_one");
    kani::assert(a.inner().strong() == s, "U1.dec_weak.frame.strong");
    core::mem::forget(a);
}

#[kani::proof]
fn u1_predicates() {
    let a = Rc::new(0u8);
    let (s, w) = any_counts();
    set_counts(&a, s, w);
    kani::assert(a.inner().strong() == s, "U1.strong.reads_strong_cell");
    kani::assert(a.inner().weak() == w, "U1.weak.reads_weak_cell");
    kani::assert(a.inner().is_uninit() == (s == MAX), "U1.is_uninit.iff_sentinel");
    kani::assert(a.inner().is_dead() == (s == 0 || s == MAX), "U1.is_dead.iff_zero_or_sentinel");
    a.inner().make_uninit();
    kani::assert(a.inner().strong() == MAX, "U1.make_uninit.sets_sentinel");
    kani::assert(a.inner().weak() == w, "U1.make_uninit.frame.weak");
    core::mem::forget(a);
}

/// The same accessors through the `Link` and `WeakInner` implementors hit the same cells.
#[kani::proof]
fn u1_implementors_agree() {
    let a = Rc::new(0u8);
    let (s, w) = any_counts();
    set_counts(&a, s, w);
    let l = crate::link::Link::forward(a.ptr);
    kani::assert(l.strong() == s && l.weak() == w, "U1.link_impl.same_cells");
    let wk = Weak { ptr: a.ptr, phantom: PhantomData };
    let wi = wk.inner().unwrap();
    kani::assert(wi.strong() == s && wi.weak() == w, "U1.weakinner_impl.same_cells");
    core::mem::forget(wk);
    core::mem::forget(a);
}

// ------------------------------------------------------------- U7 Weak / handle API

fn weak_of<T>(a: &Rc<T>) -> Weak<T> {
    Weak { ptr: a.ptr, phantom: PhantomData }
}

/// upgrade: Some (same allocation, strong+1) iff strong is neither 0 nor the sentinel; else None and no write.
#[kani::proof]
fn u7_upgrade() {
    let a = Rc::new(0u8);
    let (s, w) = any_counts();
    kani::assume(s != MAX - 1);
    set_counts(&a, s, w);
    let wk = weak_of(&a);
    let r = wk.upgrade();
    if s == 0 || s == MAX {
        kani::assert(r.is_none(), "U7.upgrade.none_iff_dead");
        kani::assert(a.inner().strong() == s && a.inner().weak() == w, "U7.upgrade.none_writes_nothing");
    } else {
        kani::assert(r.is_some(), "U7.upgrade.some_iff_live");
        if let Some(rc) = &r {
            kani::assert(rc.ptr == a.ptr, "U7.upgrade.same_allocation");
        }
        kani::assert(a.inner().strong() == s + 1, "U7.upgrade.strong_plus_one");
        kani::assert(a.inner().weak() == w, "U7.upgrade.frame.weak");
    }
    core::mem::forget(r);
    core::mem::forget(wk);
    core::mem::forget(a);
}

#[kani::proof]
fn u7_upgrade_overflow_aborts() {
    let a = Rc::new(0u8);
    let w: usize = kani::any();
    set_counts(&a, MAX - 1, w);
    let wk = weak_of(&a);
    let r = wk.upgrade();
    kani::cover!(true, "RETURNED-FROM-ABORT");
    core::mem::forget(r);
    core::mem::forget(wk);
    core::mem::forget(a);
}

/// counts seen through a Weak
#[kani::proof]
fn u7_weak_counts() {
    let a = Rc::new(0u8);
    let (s, w) = any_counts();
    kani::assume(w >= 1);
    set_counts(&a, s, w);
    let wk = weak_of(&a);
    let sc = wk.strong_count();
    let wc = wk.weak_count();
    kani::assert(sc == (if s == MAX { 0 } else { s }), "U7.weak_strong_count.zero_iff_gone_else_strong");
    let want = if s == MAX || s == 0 { 0 } else { w - 1 };
    kani::assert(wc == want, "U7.weak_weak_count.zero_when_dead_else_weak_minus_implicit");
    kani::assert(a.inner().strong() == s && a.inner().weak() == w, "U7.weak_counts.read_only");
    core::mem::forget(wk);
    core::mem::forget(a);
}

/// Weak::drop: weak-1; the allocation is released iff that was the last weak.
#[kani::proof]
fn u7_weak_drop_keeps_allocation() {
    let a = Rc::new(0u8);
    let (s, w) = any_counts();
    kani::assume(w >= 2);
    set_counts(&a, s, w);
    let wk = weak_of(&a);
    drop(wk);
    // still allocated: these reads are checked by CBMC's pointer checks
    kani::assert(a.inner().weak() == w - 1, "U7.weak_drop.weak_minus_one");
    kani::assert(a.inner().strong() == s, "U7.weak_drop.frame.strong");
    core::mem::forget(a);
}

#[kani::proof]
fn u7_weak_drop_releases_last() {
    let a = Rc::new(0u8);
    let s: usize = kani::any();
    set_counts(&a, s, 1);
    let p = a.ptr.as_ptr();
    let wk = weak_of(&a);
    core::mem::forget(a);
    drop(wk);
    // Probe: this read must be refuted by CBMC as a use of a deallocated object (the registry
    // expects exactly that failure and nothing else), which shows the allocation was released.
    let probe = unsafe { *(p as *const usize) };
    kani::assert(probe == 0 || probe != 0, "PROBE-AFTER-RELEASE");
}

/// dangling Weak (Weak::new): inert in every operation
#[kani::proof]
fn u7_weak_new_inert() {
    let wk: Weak<u8> = Weak::new();
    let up = wk.upgrade();
    kani::assert(up.is_none(), "U7.weak_new.upgrade_none");
    core::mem::forget(up);
    kani::assert(wk.strong_count() == 0 && wk.weak_count() == 0, "U7.weak_new.counts_zero");
    let c = wk.clone();
    kani::assert(c.ptr_eq(&wk), "U7.weak_new.clone_ptr_eq");
    // raw round trip of a dangling Weak keeps it dangling
    let raw = c.into_raw();
    let c2: Weak<u8> = unsafe { Weak::from_raw(raw) };
    kani::assert(c2.ptr_eq(&wk) && c2.strong_count() == 0, "U7.weak_new.raw_roundtrip_stays_dangling");
    drop(c2);
    drop(wk);
}

/// clone / downgrade / Weak::clone move exactly one counter by one and preserve the pointer
#[kani::proof]
fn u7_handle_creation() {
    let a = Rc::new(0u8);
    let (s, w) = any_counts();
    kani::assume(s != 0 && s != MAX && s != MAX - 1);
    kani::assume(w != 0 && w < MAX - 1);
    set_counts(&a, s, w);
    let c = a.clone();
    kani::assert(c.ptr == a.ptr, "U7.clone.same_allocation");
    kani::assert(a.inner().strong() == s + 1 && a.inner().weak() == w, "U7.clone.strong_plus_one_only");
    kani::assert(Rc::ptr_eq(&a, &c), "U7.ptr_eq.same_allocation_true");
    kani::assert(Rc::as_ptr(&a) == Rc::as_ptr(&c), "U7.as_ptr.agree");
    let d = Rc::downgrade(&a);
    kani::assert(d.ptr == a.ptr, "U7.downgrade.same_allocation");
    kani::assert(a.inner().strong() == s + 1 && a.inner().weak() == w + 1, "U7.downgrade.weak_plus_one_only");
    let d2 = d.clone();
    kani::assert(d2.ptr == a.ptr && d2.ptr_eq(&d), "U7.weak_clone.same_allocation");
    kani::assert(a.inner().strong() == s + 1 && a.inner().weak() == w + 2, "U7.weak_clone.weak_plus_one_only");
    kani::assert(Rc::strong_count(&a) == s + 1, "U7.strong_count.is_strong");
    kani::assert(Rc::weak_count(&a) == w + 2 - 1, "U7.weak_count.is_weak_minus_implicit");
    kani::assert(d.as_ptr() == Rc::as_ptr(&a), "U7.weak_as_ptr.agrees_with_rc");
    core::mem::forget((c, d, d2, a));
}

#[kani::proof]
fn u7_identity() {
    let a = Rc::new(1u8);
    let b = Rc::new(1u8);
    kani::assert(!Rc::ptr_eq(&a, &b), "U7.ptr_eq.distinct_allocations_false");
    kani::assert(Rc::as_ptr(&a) != Rc::as_ptr(&b), "U7.as_ptr.distinct");
    let (s, w) = any_counts();
    set_counts(&a, s, w);
    let pa = a.ptr;
    let raw = Rc::into_raw(a);
    let a2 = unsafe { Rc::from_raw(raw) };
    kani::assert(a2.ptr == pa, "U7.raw_roundtrip.same_allocation");
    kani::assert(a2.inner().strong() == s && a2.inner().weak() == w, "U7.raw_roundtrip.counts_untouched");
    kani::assert(unsafe { *raw } == 1, "U7.into_raw.points_at_value");
    let wk = weak_of(&a2);
    let wraw = wk.into_raw();
    kani::assert(wraw == raw, "U7.weak_into_raw.points_at_value");
    let wk2 = unsafe { Weak::from_raw(wraw) };
    kani::assert(wk2.ptr == pa, "U7.weak_raw_roundtrip.same_allocation");
    kani::assert(a2.inner().strong() == s && a2.inner().weak() == w, "U7.weak_raw_roundtrip.counts_untouched");
    core::mem::forget((wk2, a2, b));
}

// ------------------------------------------------------------- U8 consuming API (C07 without adoptions, C12 with)
// Stubs: the group/zero-count-with-adoptions teardown callees of `Rc::drop` are replaced by recorders;
// on objects without adoptions they are unreachable (U5), which the harnesses re-check through the counters.
use crate::hash::HashMap;
use crate::link::Link;
static mut GROUP_CALLS: usize = 0;
unsafe fn stub_dua<T>(_this: &mut Rc<T>) {
    GROUP_CALLS += 1;
}
unsafe fn stub_dc<T>(_cycle: HashMap<Link<T>, usize>) {
    GROUP_CALLS += 1;
}
fn stub_oc<T>(_this: &Rc<T>) -> Option<HashMap<Link<T>, usize>> {
    unsafe {
        GROUP_CALLS += 1;
    }
    None
}

/// try_unwrap: Ok(value) iff exactly one strong handle; then strong 0, implicit weak released; else Err(same handle), nothing written
#[kani::proof]
#[kani::unwind(6)]
fn u8_try_unwrap_plain() {
    let v: u8 = kani::any();
    let a = Rc::new(v);
    let (s, w) = any_counts();
    kani::assume(s >= 1 && s != MAX && w >= 2);
    set_counts(&a, s, w);
    let keep = alias(&a);
    match Rc::try_unwrap(a) {
        Ok(x) => {
            kani::assert(s == 1, "U8.try_unwrap.ok_only_when_sole_strong");
            kani::assert(x == v, "U8.try_unwrap.returns_the_value");
            kani::assert(keep.inner().strong() == 0 && keep.inner().weak() == w - 1, "U8.try_unwrap.strong_zero_implicit_weak_released");
        }
        Err(r) => {
            kani::assert(s != 1, "U8.try_unwrap.err_iff_shared");
            kani::assert(r.ptr == keep.ptr && keep.inner().strong() == s && keep.inner().weak() == w, "U8.try_unwrap.err_returns_same_handle_untouched");
            core::mem::forget(r);
        }
    }
    core::mem::forget(keep);
}

#[kani::proof]
#[kani::unwind(6)]
fn u8_try_unwrap_releases() {
    let a = Rc::new(7u8);
    let p = a.ptr.as_ptr();
    let r = Rc::try_unwrap(a);
    kani::assert(r.is_ok(), "U8.try_unwrap.ok_on_fresh_object");
    core::mem::forget(r);
    let probe = unsafe { *(p as *const usize) };
    kani::assert(probe == 0 || probe != 0, "PROBE-AFTER-RELEASE");
}

#[kani::proof]
fn u8_get_mut() {
    let v: u8 = kani::any();
    let mut a = Rc::new(v);
    let (s, w) = any_counts();
    kani::assume(s >= 1 && s != MAX && w >= 1);
    set_counts(&a, s, w);
    let raw = Rc::as_ptr(&a);
    let r = Rc::get_mut(&mut a).map(|m| m as *mut u8 as *const u8);
    kani::assert(r.is_some() == (s == 1 && w == 1), "U8.get_mut.some_iff_unique");
    if let Some(p) = r {
        kani::assert(p == raw, "U8.get_mut.points_at_the_value");
    }
    kani::assert(a.inner().strong() == s && a.inner().weak() == w, "U8.get_mut.writes_nothing");
    core::mem::forget(a);
}

/// make_mut, three branches, on an object without adoptions
#[kani::proof]
#[kani::unwind(6)]
#[kani::stub(crate::drop::drop_unreachable_with_adoptions, stub_dua)]
#[kani::stub(crate::drop::drop_cycle, stub_dc)]
#[kani::stub(crate::rc::Rc::orphaned_cycle, stub_oc)]
fn u8_make_mut_plain() {
    let v: u8 = kani::any();
    let mut a = Rc::new(v);
    let (s, w) = any_counts();
    kani::assume(s >= 1 && s < MAX - 1 && w >= 1 && w < MAX);
    kani::assume(!(s == 1 && w == 1) || true);
    set_counts(&a, s, w);
    let old = alias(&a);
    let m = Rc::make_mut(&mut a) as *mut u8;
    kani::assert(unsafe { *m } == v, "U8.make_mut.value_preserved");
    kani::assert(m as *const u8 == Rc::as_ptr(&a), "U8.make_mut.returns_reference_into_current_allocation");
    if s != 1 {
        kani::assert(a.ptr != old.ptr, "U8.make_mut.shared.clones_into_new_allocation");
        kani::assert(a.inner().strong() == 1 && a.inner().weak() == 1, "U8.make_mut.shared.new_allocation_is_unique");
        kani::assert(old.inner().strong() == s - 1 && old.inner().weak() == w, "U8.make_mut.shared.old_loses_exactly_this_handle");
    } else if w != 1 {
        kani::assert(a.ptr != old.ptr, "U8.make_mut.weak_only.moves_into_new_allocation");
        kani::assert(a.inner().strong() == 1 && a.inner().weak() == 1, "U8.make_mut.weak_only.new_allocation_is_unique");
        kani::assert(old.inner().strong() == 0 && old.inner().weak() == w - 1, "U8.make_mut.weak_only.old_is_dead_and_implicit_weak_released");
    } else {
        kani::assert(a.ptr == old.ptr && a.inner().strong() == 1 && a.inner().weak() == 1, "U8.make_mut.unique.in_place");
    }
    kani::assert(unsafe { GROUP_CALLS } == 0, "U8.make_mut.no_group_teardown_without_adoptions");
    core::mem::forget((a, old));
}

#[kani::proof]
#[kani::unwind(6)]
#[kani::stub(crate::drop::drop_unreachable_with_adoptions, stub_dua)]
#[kani::stub(crate::drop::drop_cycle, stub_dc)]
#[kani::stub(crate::rc::Rc::orphaned_cycle, stub_oc)]
fn u8_strong_count_raw() {
    let a = Rc::new(3u8);
    let (s, w) = any_counts();
    kani::assume(s >= 2 && s < MAX - 1 && w >= 1);
    set_counts(&a, s, w);
    let raw = Rc::as_ptr(&a);
    unsafe { Rc::increment_strong_count(raw) };
    kani::assert(a.inner().strong() == s + 1 && a.inner().weak() == w, "U8.increment_strong_count.plus_one");
    unsafe { Rc::decrement_strong_count(raw) };
    kani::assert(a.inner().strong() == s && a.inner().weak() == w, "U8.decrement_strong_count.minus_one");
    kani::assert(unsafe { GROUP_CALLS } == 0, "U8.strong_count_raw.no_group_teardown_without_adoptions");
    core::mem::forget(a);
}

#[kani::proof]
#[kani::unwind(6)]
fn u8_constructors() {
    let v: u8 = kani::any();
    let a = Rc::new(v);
    kani::assert(a.inner().strong() == 1 && a.inner().weak() == 1 && *a == v, "U8.new.one_strong_one_implicit_weak_value_stored");
    kani::assert(table_len(&a) == 0, "U8.new.no_adoption_records");
    let b: Rc<u8> = Rc::from(v);
    kani::assert(b.inner().strong() == 1 && b.inner().weak() == 1 && *b == v, "U8.from_value.same_as_new");
    let c: Rc<u8> = Rc::from(alloc::boxed::Box::new(v));
    kani::assert(c.inner().strong() == 1 && c.inner().weak() == 1 && *c == v, "U8.from_box.counts_and_value");
    kani::assert(table_len(&c) == 0, "U8.from_box.no_adoption_records");
    let d: Rc<u8> = Rc::default();
    kani::assert(*d == 0 && d.inner().strong() == 1, "U8.default.default_value");
    let e = Rc::pin(v);
    kani::assert(*e == v, "U8.pin.value_stored");
    let wd: Weak<u8> = Weak::default();
    let up = wd.upgrade();
    kani::assert(up.is_none() && wd.strong_count() == 0 && wd.weak_count() == 0, "U8.weak_default.is_dangling");
    core::mem::forget(up);
    core::mem::forget((a, b, c, d, e, wd));
}

#[kani::proof]
#[kani::unwind(4)]
fn u8_comparisons() {
    let (x, y): (u8, u8) = (kani::any(), kani::any());
    let a = Rc::new(x);
    let b = Rc::new(y);
    kani::assert((a == b) == (x == y) && (a != b) == (x != y), "U8.eq.forwards_to_values");
    kani::assert((a < b) == (x < y) && (a <= b) == (x <= y) && (a > b) == (x > y) && (a >= b) == (x >= y), "U8.ord.forwards_to_values");
    kani::assert(a.cmp(&b) == x.cmp(&y) && a.partial_cmp(&b) == x.partial_cmp(&y), "U8.cmp.forwards_to_values");
    kani::assert(*a == x && *core::borrow::Borrow::<u8>::borrow(&a) == x && *a.as_ref() == x, "U8.deref.yields_the_value");
    // Hash forwards to the value: same bytes fed to the same hasher
    struct Sum(u64);
    impl Hasher for Sum {
        fn finish(&self) -> u64 {
            self.0
        }
        fn write(&mut self, bytes: &[u8]) {
            let mut i = 0;
            while i < bytes.len() {
                self.0 = self.0.wrapping_mul(31).wrapping_add(bytes[i] as u64);
                i += 1;
            }
        }
    }
    let (mut h1, mut h2) = (Sum(7), Sum(7));
    a.hash(&mut h1);
    x.hash(&mut h2);
    kani::assert(h1.finish() == h2.finish(), "U8.hash.forwards_to_value");
    core::mem::forget((a, b));
}

/// Contract stub of `drop_unreachable` (its contract is checked on the real function by the
/// u6_drop_unreachable_* harnesses): the object ends Gone, the value is destroyed once (ghost counter),
/// the implicit weak is released, the allocation is released iff that was the last weak.
static mut DU_CALLS: usize = 0;
unsafe fn stub_du_contract<T>(this: &mut Rc<T>) {
    DU_CALLS += 1;
    let rcbox = this.ptr.as_ptr();
    (*rcbox).make_uninit();
    (*rcbox).dec_weak();
    if (*rcbox).weak() == 0 {
        let layout = Layout::for_value_raw(this.ptr.as_ptr());
        Global.deallocate(this.ptr.cast(), layout);
    }
}

// ------------------------------------------------------------- C07 cross-check against the real std::rc
/// The same straight-line program (with symbolic choices) on cactusref and on std::rc; all observations equal.
macro_rules! scenario {
    ($name:ident, $rc:ident, $weak:ident) => {
        fn $name(choice: [bool; 2], v: u8) -> [usize; 12] {
            let mut o = [0usize; 12];
            let a = $rc::new(v);
            let b = if choice[0] { Some($rc::clone(&a)) } else { None };
            let w = $rc::downgrade(&a);
            let w2 = w.clone();
            o[0] = $rc::strong_count(&a);
            o[1] = $rc::weak_count(&a);
            o[2] = w.strong_count();
            o[3] = w.weak_count();
            let up = w.upgrade();
            o[4] = up.is_some() as usize;
            o[5] = $rc::strong_count(&a);
            drop(up);
            if choice[1] {
                drop(b);
                drop(a);
            } else {
                drop(a);
                drop(b);
            }
            o[6] = w.strong_count();
            o[7] = w.weak_count();
            o[8] = w.upgrade().is_some() as usize;
            drop(w2);
            o[9] = w.weak_count();
            drop(w);
            o[11] = v as usize;
            o
        }
    };
}
type StdRc<T> = alloc::rc::Rc<T>;
type StdWeak<T> = alloc::rc::Weak<T>;
type CRc<T> = crate::Rc<T>;
type CWeak<T> = crate::Weak<T>;
scenario!(scenario_std, StdRc, StdWeak);
scenario!(scenario_cactus, CRc, CWeak);

#[kani::proof]
#[kani::unwind(14)]
#[kani::stub(crate::drop::drop_unreachable_with_adoptions, stub_dua)]
#[kani::stub(crate::drop::drop_cycle, stub_dc)]
#[kani::stub(crate::rc::Rc::orphaned_cycle, stub_oc)]
#[kani::stub(crate::drop::drop_unreachable, stub_du_contract)]
fn u8_std_crosscheck() {
    let choice: [bool; 2] = kani::any();
    let v: u8 = kani::any();
    let s = scenario_std(choice, v);
    let c = scenario_cactus(choice, v);
    let mut i = 0;
    while i < 12 {
        kani::assert(s[i] == c[i], "U8.std_crosscheck.every_observation_equals_std");
        i += 1;
    }
    kani::assert(unsafe { GROUP_CALLS } == 0, "U8.std_crosscheck.no_group_teardown_without_adoptions");
    kani::assert(unsafe { DU_CALLS } == 1, "U8.std_crosscheck.value_destroyed_exactly_once_like_std");
}

/// C12: try_unwrap on an object that has adopted a peer must not leave the peer naming the given-up allocation
#[kani::proof]
#[kani::unwind(6)]
fn u8_try_unwrap_adopted() {
    let a = Rc::new(1u8);
    let b = Rc::new(2u8);
    let k: usize = kani::any();
    kani::assume(k >= 1);
    install(&a, fwd(&b), k);
    install(&b, bwd(&a), k);
    let w: usize = kani::any();
    kani::assume(w >= 2);
    set_counts(&a, 1, w);
    let fa = fwd(&a);
    let ba = bwd(&a);
    let r = Rc::try_unwrap(a);
    kani::assert(r.is_ok(), "U8.try_unwrap_adopted.ok");
    kani::assert(cnt(&b, ba) == 0 && cnt(&b, fa) == 0, "U8.try_unwrap_adopted.no_peer_record_names_the_given_up_allocation");
    core::mem::forget((r, b));
}

// ------------------------------------------------------------- vacuity canary
/// Must FAIL: shows on every run that the pipeline (hooks, stand-in, stubs, CBMC) can refute a false claim
/// about the real code and that harness preconditions are satisfiable.
#[kani::proof]
fn k_canary_must_fail() {
    let a = Rc::new(0u8);
    let (s, w) = any_counts();
    kani::assume(s >= 1 && s < MAX - 1);
    set_counts(&a, s, w);
    a.inner().inc_strong();
    kani::cover!(true, "CANARY-REACHED");
    kani::assert(a.inner().strong() == s, "X.canary.kani_refutes_a_false_claim");
    core::mem::forget(a);
}

/// raw round trips with an over-aligned payload (the value does not sit directly behind the counters)
// alignment larger than the header of RcBox (which, under cfg(kani), contains the table stand-in), so
// that the value does not sit directly behind the header
#[repr(align(1024))]
struct Wide(u8);

#[kani::proof]
fn u7_identity_overaligned() {
    let a = Rc::new(Wide(5));
    let pa = a.ptr;
    let (s, w) = any_counts();
    set_counts(&a, s, w);
    let raw = Rc::into_raw(a);
    kani::assert(unsafe { (*raw).0 } == 5, "U7.into_raw.points_at_value");
    let a2 = unsafe { Rc::from_raw(raw) };
    kani::assert(a2.ptr == pa, "U7.raw_roundtrip.same_allocation");
    kani::assert(a2.inner().strong() == s && a2.inner().weak() == w, "U7.raw_roundtrip.counts_untouched");
    let wk = weak_of(&a2);
    let wraw = wk.into_raw();
    kani::assert(wraw == raw, "U7.weak_into_raw.points_at_value");
    let wk2 = unsafe { Weak::from_raw(wraw) };
    kani::assert(wk2.ptr == pa, "U7.weak_raw_roundtrip.same_allocation");
    core::mem::forget((wk2, a2));
}

/// C12: the raw count functions on an object that takes part in adoptions go through the full drop
/// dispatch (the reachability trace runs exactly once when a non-final handle is released)
#[kani::proof]
#[kani::unwind(6)]
#[kani::stub(crate::drop::drop_unreachable_with_adoptions, stub_dua)]
#[kani::stub(crate::drop::drop_cycle, stub_dc)]
#[kani::stub(crate::rc::Rc::orphaned_cycle, stub_oc)]
fn u8_strong_count_raw_adopted() {
    let a = Rc::new(3u8);
    let (s, w) = any_counts();
    kani::assume(s >= 2 && s < MAX - 1 && w >= 1);
    set_counts(&a, s, w);
    install(&a, bwd(&a), 1);
    let raw = Rc::as_ptr(&a);
    unsafe { Rc::increment_strong_count(raw) };
    kani::assert(a.inner().strong() == s + 1 && unsafe { GROUP_CALLS } == 0, "U8.increment_strong_count_adopted.plus_one_no_trace");
    unsafe { Rc::decrement_strong_count(raw) };
    kani::assert(a.inner().strong() == s && a.inner().weak() == w, "U8.decrement_strong_count_adopted.minus_one");
    kani::assert(unsafe { GROUP_CALLS } == 1, "U8.decrement_strong_count_adopted.runs_the_reachability_trace_once");
    core::mem::forget(a);
}

/// downgrade / Weak::clone on an object whose value is already destroyed (handles held by destructors
/// during a collection): the new Weak still owns a weak count, for every counter value
#[kani::proof]
fn u7_downgrade_of_dead_object_counts() {
    let a = Rc::new(0u8);
    let (s, w) = any_counts();
    kani::assume(s == 0 || s == MAX);
    kani::assume(w != 0 && w < MAX - 1);
    set_counts(&a, s, w);
    let d = Rc::downgrade(&a);
    kani::assert(d.ptr == a.ptr && a.inner().weak() == w + 1 && a.inner().strong() == s, "U7.downgrade_dead.weak_plus_one_only");
    let d2 = d.clone();
    kani::assert(d2.ptr == a.ptr && a.inner().weak() == w + 2 && a.inner().strong() == s, "U7.weak_clone_dead.weak_plus_one_only");
    core::mem::forget((d, d2, a));
}

/// comparison forwarders with a payload whose equality is not reflexive (f32 NaN) and two handles to
/// the SAME allocation: the result is the values' comparison, never pointer identity
#[kani::proof]
fn u8_comparisons_same_allocation_partial_eq() {
    let x: f32 = kani::any();
    let a = Rc::new(x);
    let a2 = alias(&a);
    kani::assert((a == a2) == (x == x) && (a != a2) == (x != x), "U8.eq.same_allocation_still_compares_values");
    kani::assert(a.partial_cmp(&a2) == x.partial_cmp(&x), "U8.partial_cmp.same_allocation_still_compares_values");
    core::mem::forget((a, a2));
}

/// second cross-check scenario: the consuming API (get_mut, make_mut's three branches, try_unwrap) on
/// cactusref and on the real std::rc, with a second strong handle and/or a Weak present or not
macro_rules! scenario2 {
    ($name:ident, $rc:ident) => {
        fn $name(choice: [bool; 2], v: u8) -> [usize; 10] {
            let mut o = [0usize; 10];
            let mut a = $rc::new(v);
            let b = if choice[0] { Some($rc::clone(&a)) } else { None };
            let w = if choice[1] { Some($rc::downgrade(&a)) } else { None };
            o[0] = $rc::get_mut(&mut a).is_some() as usize;
            o[1] = *$rc::make_mut(&mut a) as usize;
            o[2] = $rc::strong_count(&a);
            o[3] = $rc::weak_count(&a);
            o[4] = match &b {
                Some(b) => $rc::strong_count(b) * 10 + $rc::ptr_eq(b, &a) as usize,
                None => 99,
            };
            o[5] = match &w {
                Some(w) => w.strong_count() * 10 + w.weak_count(),
                None => 99,
            };
            let r = $rc::try_unwrap(a);
            o[6] = match &r {
                Ok(x) => 100 + *x as usize,
                Err(_) => 0,
            };
            o[7] = match &w {
                Some(w) => w.strong_count() * 10 + w.weak_count(),
                None => 99,
            };
            drop(r);
            drop(b);
            o[8] = match &w {
                Some(w) => w.strong_count() * 10 + w.weak_count(),
                None => 99,
            };
            drop(w);
            o
        }
    };
}
scenario2!(scenario2_std, StdRc);
scenario2!(scenario2_cactus, CRc);

#[kani::proof]
#[kani::unwind(12)]
#[kani::stub(crate::drop::drop_unreachable_with_adoptions, stub_dua)]
#[kani::stub(crate::drop::drop_cycle, stub_dc)]
#[kani::stub(crate::rc::Rc::orphaned_cycle, stub_oc)]
#[kani::stub(crate::drop::drop_unreachable, stub_du_contract)]
fn u8_std_crosscheck_consuming() {
    let choice: [bool; 2] = kani::any();
    let v: u8 = kani::any();
    let s = scenario2_std(choice, v);
    let c = scenario2_cactus(choice, v);
    let mut i = 0;
    while i < 10 {
        kani::assert(s[i] == c[i], "U8.std_crosscheck_consuming.every_observation_equals_std");
        i += 1;
    }
    kani::assert(unsafe { GROUP_CALLS } == 0, "U8.std_crosscheck_consuming.no_group_teardown_without_adoptions");
}

/// C16: `Rc::clone` (not just inc_strong) of a handle to a destroyed object never returns
#[kani::proof]
fn u7_clone_of_dead_handle_aborts() {
    let a = Rc::new(0u8);
    let (s, w) = any_counts();
    kani::assume(s == 0 || s == MAX || s == MAX - 1);
    set_counts(&a, s, w);
    let c = a.clone();
    kani::cover!(true, "RETURNED-FROM-ABORT");
    core::mem::forget((c, a));
}

/// C12: make_mut's steal branch (sole strong handle, Weak handles outstanding) on an object that has adopted
/// a peer must not leave the peer naming the given-up allocation (second site of finding D6)
#[kani::proof]
#[kani::unwind(6)]
#[kani::stub(crate::drop::drop_unreachable_with_adoptions, stub_dua)]
#[kani::stub(crate::drop::drop_cycle, stub_dc)]
#[kani::stub(crate::rc::Rc::orphaned_cycle, stub_oc)]
#[kani::stub(crate::drop::drop_unreachable, stub_du_contract)]
fn u8_make_mut_steal_adopted() {
    let mut a = Rc::new(1u8);
    let b = Rc::new(2u8);
    install(&a, fwd(&b), 2);
    install(&b, bwd(&a), 2);
    set_counts(&a, 1, 2);
    let fa = fwd(&a);
    let ba = bwd(&a);
    let old = alias(&a);
    let _ = Rc::make_mut(&mut a);
    kani::assert(a.ptr != old.ptr, "U8.make_mut_steal_adopted.moved_to_a_new_allocation");
    kani::assert(cnt(&b, ba) == 0 && cnt(&b, fa) == 0, "U8.make_mut_steal_adopted.no_peer_record_names_the_given_up_allocation");
    core::mem::forget((a, b, old));
}

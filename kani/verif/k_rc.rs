//! U1 (counters) and U7 (Weak / handle API) harnesses: loop-free bodies over
//! full-domain symbolic counters -- complete proofs, not bounded ones.
#![allow(dead_code, unused_imports)]
use super::*;
use crate::verif::util::*;

fn any_counts() -> (usize, usize) {
    (kani::any(), kani::any())
}

// ---------------------------------------------------------------- U1 counters

/// inc_strong returns iff old strong is none of {0, MAX-1, MAX}; then +1 and weak untouched.
#[kani::proof]
fn u1_inc_strong_returns() {
    let a = Rc::new(0u8);
    let (s, w) = any_counts();
    kani::assume(s != 0 && s != MAX && s != MAX - 1);
    set_counts(&a, s, w);
    a.inner().inc_strong();
    kani::assert(a.inner().strong() == s + 1, "U1.inc_strong.post.plus_one");
    kani::assert(a.inner().weak() == w, "U1.inc_strong.frame.weak");
    core::mem::forget(a);
}

/// For the three forbidden values control reaches abort and never comes back.
#[kani::proof]
fn u1_inc_strong_aborts() {
    let a = Rc::new(0u8);
    let (s, w) = any_counts();
    kani::assume(s == 0 || s == MAX || s == MAX - 1);
    set_counts(&a, s, w);
    a.inner().inc_strong();
    kani::cover!(true, "RETURNED-FROM-ABORT");
    core::mem::forget(a);
}

#[kani::proof]
fn u1_dec_strong() {
    let a = Rc::new(0u8);
    let (s, w) = any_counts();
    kani::assume(s >= 1);
    set_counts(&a, s, w);
    a.inner().dec_strong();
    kani::assert(a.inner().strong() == s - 1, "U1.dec_strong.post.minus_one");
    kani::assert(a.inner().weak() == w, "U1.dec_strong.frame.weak");
    core::mem::forget(a);
}

#[kani::proof]
fn u1_inc_weak_returns() {
    let a = Rc::new(0u8);
    let (s, w) = any_counts();
    kani::assume(w != 0 && w != MAX);
    set_counts(&a, s, w);
    a.inner().inc_weak();
    kani::assert(a.inner().weak() == w + 1, "U1.inc_weak.post.plus_one");
    kani::assert(a.inner().strong() == s, "U1.inc_weak.frame.strong");
    core::mem::forget(a);
}

#[kani::proof]
fn u1_inc_weak_aborts() {
    let a = Rc::new(0u8);
    let (s, w) = any_counts();
    kani::assume(w == 0 || w == MAX);
    set_counts(&a, s, w);
    a.inner().inc_weak();
    kani::cover!(true, "RETURNED-FROM-ABORT");
    core::mem::forget(a);
}

#[kani::proof]
fn u1_dec_weak() {
    let a = Rc::new(0u8);
    let (s, w) = any_counts();
    kani::assume(w >= 1);
    set_counts(&a, s, w);
    a.inner().dec_weak();
    kani::assert(a.inner().weak() == w - 1, "U1.dec_weak.post.minus_one");
    kani::assert(a.inner().strong() == s, "U1.dec_weak.frame.strong");
    core::mem::forget(a);
}

#[kani::proof]
fn u1_predicates() {
    let a = Rc::new(0u8);
    let (s, w) = any_counts();
    set_counts(&a, s, w);
    kani::assert(a.inner().strong() == s, "U1.strong.reads_strong_cell");
    kani::assert(a.inner().weak() == w, "U1.weak.reads_weak_cell");
    kani::assert(a.inner().is_uninit() == (s == MAX), "U1.is_uninit.iff_sentinel");
    kani::assert(a.inner().is_dead() == (s == 0 || s == MAX), "U1.is_dead.iff_zero_or_sentinel");
    a.inner().make_uninit();
    kani::assert(a.inner().strong() == MAX, "U1.make_uninit.sets_sentinel");
    kani::assert(a.inner().weak() == w, "U1.make_uninit.frame.weak");
    core::mem::forget(a);
}

/// The same accessors through the `Link` and `WeakInner` implementors hit the same cells.
#[kani::proof]
fn u1_implementors_agree() {
    let a = Rc::new(0u8);
    let (s, w) = any_counts();
    set_counts(&a, s, w);
    let l = crate::link::Link::forward(a.ptr);
    kani::assert(l.strong() == s && l.weak() == w, "U1.link_impl.same_cells");
    let wk = Weak { ptr: a.ptr, phantom: PhantomData };
    let wi = wk.inner().unwrap();
    kani::assert(wi.strong() == s && wi.weak() == w, "U1.weakinner_impl.same_cells");
    core::mem::forget(wk);
    core::mem::forget(a);
}

// ------------------------------------------------------------- U7 Weak / handle API

fn weak_of<T>(a: &Rc<T>) -> Weak<T> {
    Weak { ptr: a.ptr, phantom: PhantomData }
}

/// upgrade: Some (same allocation, strong+1) iff strong is neither 0 nor the sentinel; else None and no write.
#[kani::proof]
fn u7_upgrade() {
    let a = Rc::new(0u8);
    let (s, w) = any_counts();
    kani::assume(s != MAX - 1);
    set_counts(&a, s, w);
    let wk = weak_of(&a);
    let r = wk.upgrade();
    if s == 0 || s == MAX {
        kani::assert(r.is_none(), "U7.upgrade.none_iff_dead");
        kani::assert(a.inner().strong() == s && a.inner().weak() == w, "U7.upgrade.none_writes_nothing");
    } else {
        kani::assert(r.is_some(), "U7.upgrade.some_iff_live");
        if let Some(rc) = &r {
            kani::assert(rc.ptr == a.ptr, "U7.upgrade.same_allocation");
        }
        kani::assert(a.inner().strong() == s + 1, "U7.upgrade.strong_plus_one");
        kani::assert(a.inner().weak() == w, "U7.upgrade.frame.weak");
    }
    core::mem::forget(r);
    core::mem::forget(wk);
    core::mem::forget(a);
}

#[kani::proof]
fn u7_upgrade_overflow_aborts() {
    let a = Rc::new(0u8);
    let w: usize = kani::any();
    set_counts(&a, MAX - 1, w);
    let wk = weak_of(&a);
    let r = wk.upgrade();
    kani::cover!(true, "RETURNED-FROM-ABORT");
    core::mem::forget(r);
    core::mem::forget(wk);
    core::mem::forget(a);
}

/// counts seen through a Weak
#[kani::proof]
fn u7_weak_counts() {
    let a = Rc::new(0u8);
    let (s, w) = any_counts();
    kani::assume(w >= 1);
    set_counts(&a, s, w);
    let wk = weak_of(&a);
    let sc = wk.strong_count();
    let wc = wk.weak_count();
    kani::assert(sc == (if s == MAX { 0 } else { s }), "U7.weak_strong_count.zero_iff_gone_else_strong");
    let want = if s == MAX || s == 0 { 0 } else { w - 1 };
    kani::assert(wc == want, "U7.weak_weak_count.zero_when_dead_else_weak_minus_implicit");
    kani::assert(a.inner().strong() == s && a.inner().weak() == w, "U7.weak_counts.read_only");
    core::mem::forget(wk);
    core::mem::forget(a);
}

/// Weak::drop: weak-1; the allocation is released iff that was the last weak.
#[kani::proof]
fn u7_weak_drop_keeps_allocation() {
    let a = Rc::new(0u8);
    let (s, w) = any_counts();
    kani::assume(w >= 2);
    set_counts(&a, s, w);
    let wk = weak_of(&a);
    drop(wk);
    // still allocated: these reads are checked by CBMC's pointer checks
    kani::assert(a.inner().weak() == w - 1, "U7.weak_drop.weak_minus_one");
    kani::assert(a.inner().strong() == s, "U7.weak_drop.frame.strong");
    core::mem::forget(a);
}

#[kani::proof]
fn u7_weak_drop_releases_last() {
    let a = Rc::new(0u8);
    let s: usize = kani::any();
    set_counts(&a, s, 1);
    let p = a.ptr.as_ptr();
    let wk = weak_of(&a);
    core::mem::forget(a);
    drop(wk);
    // Probe: this read must be refuted by CBMC as a use of a deallocated object (the registry
    // expects exactly that failure and nothing else), which shows the allocation was released.
    let probe = unsafe { *(p as *const usize) };
    kani::assert(probe == 0 || probe != 0, "PROBE-AFTER-RELEASE");
}

/// dangling Weak (Weak::new): inert in every operation
#[kani::proof]
fn u7_weak_new_inert() {
    let wk: Weak<u8> = Weak::new();
    let up = wk.upgrade();
    kani::assert(up.is_none(), "U7.weak_new.upgrade_none");
    core::mem::forget(up);
    kani::assert(wk.strong_count() == 0 && wk.weak_count() == 0, "U7.weak_new.counts_zero");
    let c = wk.clone();
    kani::assert(c.ptr_eq(&wk), "U7.weak_new.clone_ptr_eq");
    drop(c);
    drop(wk);
}

/// clone / downgrade / Weak::clone move exactly one counter by one and preserve the pointer
#[kani::proof]
fn u7_handle_creation() {
    let a = Rc::new(0u8);
    let (s, w) = any_counts();
    kani::assume(s != 0 && s != MAX && s != MAX - 1);
    kani::assume(w != 0 && w < MAX - 1);
    set_counts(&a, s, w);
    let c = a.clone();
    kani::assert(c.ptr == a.ptr, "U7.clone.same_allocation");
    kani::assert(a.inner().strong() == s + 1 && a.inner().weak() == w, "U7.clone.strong_plus_one_only");
    kani::assert(Rc::ptr_eq(&a, &c), "U7.ptr_eq.same_allocation_true");
    kani::assert(Rc::as_ptr(&a) == Rc::as_ptr(&c), "U7.as_ptr.agree");
    let d = Rc::downgrade(&a);
    kani::assert(d.ptr == a.ptr, "U7.downgrade.same_allocation");
    kani::assert(a.inner().strong() == s + 1 && a.inner().weak() == w + 1, "U7.downgrade.weak_plus_one_only");
    let d2 = d.clone();
    kani::assert(d2.ptr == a.ptr && d2.ptr_eq(&d), "U7.weak_clone.same_allocation");
    kani::assert(a.inner().strong() == s + 1 && a.inner().weak() == w + 2, "U7.weak_clone.weak_plus_one_only");
    kani::assert(Rc::strong_count(&a) == s + 1, "U7.strong_count.is_strong");
    kani::assert(Rc::weak_count(&a) == w + 2 - 1, "U7.weak_count.is_weak_minus_implicit");
    kani::assert(d.as_ptr() == Rc::as_ptr(&a), "U7.weak_as_ptr.agrees_with_rc");
    core::mem::forget((c, d, d2, a));
}

#[kani::proof]
fn u7_identity() {
    let a = Rc::new(1u8);
    let b = Rc::new(1u8);
    kani::assert(!Rc::ptr_eq(&a, &b), "U7.ptr_eq.distinct_allocations_false");
    kani::assert(Rc::as_ptr(&a) != Rc::as_ptr(&b), "U7.as_ptr.distinct");
    let (s, w) = any_counts();
    set_counts(&a, s, w);
    let pa = a.ptr;
    let raw = Rc::into_raw(a);
    let a2 = unsafe { Rc::from_raw(raw) };
    kani::assert(a2.ptr == pa, "U7.raw_roundtrip.same_allocation");
    kani::assert(a2.inner().strong() == s && a2.inner().weak() == w, "U7.raw_roundtrip.counts_untouched");
    kani::assert(unsafe { *raw } == 1, "U7.into_raw.points_at_value");
    let wk = weak_of(&a2);
    let wraw = wk.into_raw();
    kani::assert(wraw == raw, "U7.weak_into_raw.points_at_value");
    let wk2 = unsafe { Weak::from_raw(wraw) };
    kani::assert(wk2.ptr == pa, "U7.weak_raw_roundtrip.same_allocation");
    kani::assert(a2.inner().strong() == s && a2.inner().weak() == w, "U7.weak_raw_roundtrip.counts_untouched");
    core::mem::forget((wk2, a2, b));
}

//! Bounded association-array stand-in for the `hashbrown` tables, used under
//! `cfg(kani)` only (hashbrown's SIMD group probing is out of CBMC's reach).
//! This is an *assumed contract on the dependency*: a finite map with the API
//! subset cactusref uses.  Exceeding `CAP` is reported as a bound violation
//! ("vmap capacity exceeded"), never as success.
//!
//! Iteration order: slot order.  With `--cfg vmap_nondet` a new key goes to a
//! nondeterministically chosen free slot, so that iteration order is
//! universally quantified.

use alloc::boxed::Box;
use core::fmt;

#[cfg(not(vmap_cap6))]
pub const CAP: usize = 4;
#[cfg(vmap_cap6)]
pub const CAP: usize = 6;

/// Ghost observer: called from the stand-in's `Drop` with the map's tag.  The
/// tables of a collected group are destroyed at the same program point as the
/// members' values, so this hook sees exactly the call-out states.
pub static mut DROP_OBSERVER: Option<fn(u8)> = None;
/// Number of tagged (non-zero tag) tables destroyed so far.
pub static mut TAGGED_DROPS: usize = 0;

pub struct HashMap<K, V> {
    slots: [Option<(K, V)>; CAP],
    /// ghost tag set by harnesses (0 = untagged)
    pub tag: u8,
    /// heap marker: a forgotten table is a CBMC memory leak, a table released
    /// twice a double free.
    marker: Option<Box<u8>>,
}

impl<K, V> Default for HashMap<K, V> {
    #[inline]
    fn default() -> Self {
        Self {
            slots: [const { None }; CAP],
            tag: 0,
            marker: Some(Box::new(0)),
        }
    }
}

impl<K, V> Drop for HashMap<K, V> {
    fn drop(&mut self) {
        if self.tag != 0 {
            unsafe {
                TAGGED_DROPS += 1;
                if let Some(f) = DROP_OBSERVER {
                    f(self.tag);
                }
            }
        }
    }
}

impl<K: fmt::Debug, V: fmt::Debug> fmt::Debug for HashMap<K, V> {
    fn fmt(&self, f: &mut fmt::Formatter<'_>) -> fmt::Result {
        f.write_str("vmap")
    }
}

impl<K: PartialEq, V> HashMap<K, V> {
    #[inline]
    fn find(&self, k: &K) -> Option<usize> {
        let mut i = 0;
        while i < CAP {
            if let Some((kk, _)) = &self.slots[i] {
                if kk == k {
                    return Some(i);
                }
            }
            i += 1;
        }
        None
    }

    #[inline]
    fn free_slot(&self) -> usize {
        #[cfg(vmap_nondet)]
        {
            let i: usize = kani::any();
            kani::assume(i < CAP);
            if self.slots[i].is_none() {
                return i;
            }
        }
        let mut i = 0;
        while i < CAP {
            if self.slots[i].is_none() {
                return i;
            }
            i += 1;
        }
        kani::assert(false, "vmap capacity exceeded");
        kani::assume(false);
        0
    }

    pub fn get(&self, k: &K) -> Option<&V> {
        match self.find(k) {
            Some(i) => self.slots[i].as_ref().map(|kv| &kv.1),
            None => None,
        }
    }

    pub fn contains_key(&self, k: &K) -> bool {
        self.find(k).is_some()
    }

    pub fn insert(&mut self, k: K, v: V) -> Option<V> {
        match self.find(&k) {
            Some(i) => {
                let old = self.slots[i].take();
                self.slots[i] = Some((k, v));
                old.map(|kv| kv.1)
            }
            None => {
                let i = self.free_slot();
                self.slots[i] = Some((k, v));
                None
            }
        }
    }

    pub fn remove(&mut self, k: &K) -> Option<V> {
        match self.find(k) {
            Some(i) => self.slots[i].take().map(|kv| kv.1),
            None => None,
        }
    }

    pub fn entry(&mut self, key: K) -> Entry<'_, K, V> {
        let idx = self.find(&key);
        Entry { map: self, key, idx }
    }
}

impl<K, V> HashMap<K, V> {
    pub fn clear(&mut self) {
        let mut i = 0;
        while i < CAP {
            self.slots[i] = None;
            i += 1;
        }
    }

    pub fn len(&self) -> usize {
        let mut n = 0;
        let mut i = 0;
        while i < CAP {
            if self.slots[i].is_some() {
                n += 1;
            }
            i += 1;
        }
        n
    }

    pub fn is_empty(&self) -> bool {
        let mut i = 0;
        while i < CAP {
            if self.slots[i].is_some() {
                return false;
            }
            i += 1;
        }
        true
    }

    pub fn iter(&self) -> Iter<'_, K, V> {
        Iter { map: self, pos: 0 }
    }

    pub fn extract_if<F>(&mut self, f: F) -> ExtractIf<'_, K, V, F>
    where
        F: FnMut(&K, &mut V) -> bool,
    {
        ExtractIf { map: self, pos: 0, f }
    }

    /// verification-only: the raw slot, for whole-view postconditions
    pub fn slot(&self, i: usize) -> Option<&(K, V)> {
        self.slots[i].as_ref()
    }
}

pub struct Entry<'a, K, V> {
    map: &'a mut HashMap<K, V>,
    key: K,
    idx: Option<usize>,
}

impl<'a, K: PartialEq, V> Entry<'a, K, V> {
    pub fn or_insert(self, default: V) -> &'a mut V {
        let i = match self.idx {
            Some(i) => i,
            None => {
                let i = self.map.free_slot();
                self.map.slots[i] = Some((self.key, default));
                i
            }
        };
        match &mut self.map.slots[i] {
            Some(kv) => &mut kv.1,
            None => unreachable!(),
        }
    }

    pub fn and_modify<F: FnOnce(&mut V)>(self, f: F) -> Self {
        if let Some(i) = self.idx {
            if let Some(kv) = &mut self.map.slots[i] {
                f(&mut kv.1);
            }
        }
        self
    }

    pub fn or_default(self) -> &'a mut V
    where
        V: Default,
    {
        self.or_insert(V::default())
    }
}

pub struct Iter<'a, K, V> {
    map: &'a HashMap<K, V>,
    pos: usize,
}

impl<'a, K, V> Iterator for Iter<'a, K, V> {
    type Item = (&'a K, &'a V);
    fn next(&mut self) -> Option<Self::Item> {
        while self.pos < CAP {
            let i = self.pos;
            self.pos += 1;
            if let Some(kv) = &self.map.slots[i] {
                return Some((&kv.0, &kv.1));
            }
        }
        None
    }
}

impl<'a, K, V> IntoIterator for &'a HashMap<K, V> {
    type Item = (&'a K, &'a V);
    type IntoIter = Iter<'a, K, V>;
    fn into_iter(self) -> Iter<'a, K, V> {
        self.iter()
    }
}

pub struct IntoIter<K, V> {
    map: HashMap<K, V>,
    pos: usize,
}

impl<K, V> Iterator for IntoIter<K, V> {
    type Item = (K, V);
    fn next(&mut self) -> Option<(K, V)> {
        while self.pos < CAP {
            let i = self.pos;
            self.pos += 1;
            if let Some(kv) = self.map.slots[i].take() {
                return Some(kv);
            }
        }
        None
    }
}

impl<K, V> IntoIterator for HashMap<K, V> {
    type Item = (K, V);
    type IntoIter = IntoIter<K, V>;
    fn into_iter(self) -> IntoIter<K, V> {
        IntoIter { map: self, pos: 0 }
    }
}

pub struct ExtractIf<'a, K, V, F>
where
    F: FnMut(&K, &mut V) -> bool,
{
    map: &'a mut HashMap<K, V>,
    pos: usize,
    f: F,
}

impl<'a, K, V, F> Iterator for ExtractIf<'a, K, V, F>
where
    F: FnMut(&K, &mut V) -> bool,
{
    type Item = (K, V);
    fn next(&mut self) -> Option<(K, V)> {
        while self.pos < CAP {
            let i = self.pos;
            self.pos += 1;
            let hit = match &mut self.map.slots[i] {
                Some(kv) => (self.f)(&kv.0, &mut kv.1),
                None => false,
            };
            if hit {
                return self.map.slots[i].take();
            }
        }
        None
    }
}

pub struct HashSet<T> {
    slots: [Option<T>; CAP],
}

impl<T> Default for HashSet<T> {
    fn default() -> Self {
        Self { slots: [const { None }; CAP] }
    }
}

impl<T: PartialEq> HashSet<T> {
    pub fn contains(&self, t: &T) -> bool {
        let mut i = 0;
        while i < CAP {
            if let Some(x) = &self.slots[i] {
                if x == t {
                    return true;
                }
            }
            i += 1;
        }
        false
    }

    pub fn insert(&mut self, t: T) -> bool {
        if self.contains(&t) {
            return false;
        }
        let mut i = 0;
        while i < CAP {
            if self.slots[i].is_none() {
                self.slots[i] = Some(t);
                return true;
            }
            i += 1;
        }
        kani::assert(false, "vmap capacity exceeded");
        kani::assume(false);
        false
    }
}

//! Bounded association-array stand-in for the `hashbrown` tables, used under
//! `cfg(kani)` only (hashbrown's SIMD group probing is out of CBMC's reach).
//! This is an *assumed contract on the dependency*: a finite map with the API
//! subset cactusref uses.  Exceeding `CAP` is reported as a bound violation
//! ("vmap capacity exceeded"), never as success.
//!
//! Like hashbrown's, the storage is heap allocated on first insertion: the table value itself stays
//! small (the teardown code moves tables around with `mem::replace` and `Vec::push`), an empty table
//! owns no memory, and a forgotten / doubly released table is visible to CBMC.
//!
//! Iteration order: slot order.  With `--cfg vmap_nondet` a new key goes to a
//! nondeterministically chosen free slot, so that iteration order is
//! universally quantified.

use alloc::boxed::Box;
use core::fmt;

#[cfg(not(any(vmap_cap3, vmap_cap6)))]
pub const CAP: usize = 4;
#[cfg(vmap_cap3)]
pub const CAP: usize = 3;
#[cfg(vmap_cap6)]
pub const CAP: usize = 6;

/// Ghost observer of call-out states.  The tables of a collected group are destroyed at the same
/// program point as the members' values (`drop(inners)`), so a check made from the stand-in's `Drop`
/// sees exactly the states in which user destructors run.  To keep CBMC's model small the observer is
/// not a function pointer: harnesses register up to three (strong, weak) counter cells and the values
/// they must have at every call-out; `Drop` of a tagged table asserts them.
pub static mut OBS_STRONG: [*const core::cell::Cell<usize>; 3] = [core::ptr::null(); 3];
pub static mut OBS_WEAK: [*const core::cell::Cell<usize>; 3] = [core::ptr::null(); 3];
pub static mut OBS_EXPECT_WEAK: [usize; 3] = [0; 3];
/// when set for member i, the first call-out also performs the smallest action a destructor may take on a
/// dying peer that changes its fate: `Rc::downgrade` of a handle to it (weak+1), the new Weak escaping
pub static mut OBS_INC_WEAK_ONCE: [bool; 3] = [false; 3];
/// Number of tagged (non-zero tag) tables destroyed so far.
pub static mut TAGGED_DROPS: usize = 0;
/// tables constructed minus tables destroyed (a forgotten table keeps this positive)
pub static mut LIVE_TABLES: isize = 0;


/// Repeats a statement block exactly CAP times without a loop (CBMC does not have to discover the bound).
macro_rules! rep {
    ($b:block) => {
        $b
        $b
        $b
        #[cfg(not(vmap_cap3))]
        $b
        #[cfg(vmap_cap6)]
        $b
        #[cfg(vmap_cap6)]
        $b
    };
}

type Slots<K, V> = [Option<(K, V)>; CAP];

/// Two storage modes, selected per harness (measured, DESIGN.md 12.5): inline slots (default; best for
/// the harnesses with many symbolic values) and, under `--cfg vmap_heap`, storage allocated on first
/// insertion like hashbrown's (the table value stays small when the teardown code moves it with
/// `mem::replace` and `Vec::push`; used with CBMC's larger field-sensitivity bound for `drop_cycle`).
#[cfg(vmap_heap)]
type Store<K, V> = Option<Box<Slots<K, V>>>;
#[cfg(not(vmap_heap))]
type Store<K, V> = Slots<K, V>;

#[cfg(vmap_heap)]
#[inline]
fn new_store<K, V>() -> Store<K, V> {
    None
}
#[cfg(not(vmap_heap))]
#[inline]
fn new_store<K, V>() -> Store<K, V> {
    [const { None }; CAP]
}

pub struct HashMap<K, V> {
    store: Store<K, V>,
    /// ghost tag set by harnesses (0 = untagged)
    pub tag: u8,
}

impl<K, V> Default for HashMap<K, V> {
    #[inline]
    fn default() -> Self {
        unsafe {
            LIVE_TABLES += 1;
        }
        Self { store: new_store(), tag: 0 }
    }
}

impl<K, V> Drop for HashMap<K, V> {
    fn drop(&mut self) {
        unsafe {
            LIVE_TABLES -= 1;
            if self.tag != 0 {
                TAGGED_DROPS += 1;
                let mut i = 0;
                while i < 3 {
                    if !OBS_STRONG[i].is_null() {
                        kani::assert((*OBS_STRONG[i]).get() == usize::MAX, "U6.callout.every_registered_member_already_gone");
                        kani::assert((*OBS_WEAK[i]).get() == OBS_EXPECT_WEAK[i], "U6.callout.no_registered_member_released_yet");
                        if OBS_INC_WEAK_ONCE[i] {
                            OBS_INC_WEAK_ONCE[i] = false;
                            (*OBS_WEAK[i]).set((*OBS_WEAK[i]).get() + 1);
                            OBS_EXPECT_WEAK[i] += 1;
                        }
                    }
                    i += 1;
                }
            }
        }
    }
}

impl<K: fmt::Debug, V: fmt::Debug> fmt::Debug for HashMap<K, V> {
    fn fmt(&self, f: &mut fmt::Formatter<'_>) -> fmt::Result {
        f.write_str("vmap")
    }
}

impl<K, V> HashMap<K, V> {
    #[cfg(vmap_heap)]
    #[inline]
    fn slots(&self) -> Option<&Slots<K, V>> {
        match &self.store {
            Some(b) => Some(&**b),
            None => None,
        }
    }
    #[cfg(not(vmap_heap))]
    #[inline]
    fn slots(&self) -> Option<&Slots<K, V>> {
        Some(&self.store)
    }

    #[cfg(vmap_heap)]
    #[inline]
    fn slots_mut(&mut self) -> &mut Slots<K, V> {
        if self.store.is_none() {
            self.store = Some(Box::new([const { None }; CAP]));
        }
        match &mut self.store {
            Some(b) => &mut **b,
            None => unreachable!(),
        }
    }
    #[cfg(not(vmap_heap))]
    #[inline]
    fn slots_mut(&mut self) -> &mut Slots<K, V> {
        &mut self.store
    }

    /// the slots if any storage exists (never allocates)
    #[cfg(vmap_heap)]
    #[inline]
    fn slots_mut_opt(&mut self) -> Option<&mut Slots<K, V>> {
        match &mut self.store {
            Some(b) => Some(&mut **b),
            None => None,
        }
    }
    #[cfg(not(vmap_heap))]
    #[inline]
    fn slots_mut_opt(&mut self) -> Option<&mut Slots<K, V>> {
        Some(&mut self.store)
    }

    #[inline]
    fn free_slot(&mut self) -> usize {
        let slots = self.slots_mut();
        #[cfg(vmap_nondet)]
        {
            let i: usize = kani::any();
            kani::assume(i < CAP);
            if slots[i].is_none() {
                return i;
            }
        }
        let mut i = 0;
        rep!({
            if slots[i].is_none() {
                return i;
            }
            i += 1;
        });
        let _ = i;
        kani::assert(false, "vmap capacity exceeded");
        kani::assume(false);
        0
    }

    pub fn clear(&mut self) {
        if let Some(b) = self.slots_mut_opt() {
            let mut i = 0;
            rep!({
                b[i] = None;
                i += 1;
            });
            let _ = i;
        }
    }

    pub fn len(&self) -> usize {
        let mut n = 0;
        if let Some(s) = self.slots() {
            let mut i = 0;
            rep!({
                if s[i].is_some() {
                    n += 1;
                }
                i += 1;
            });
            let _ = i;
        }
        n
    }

    pub fn is_empty(&self) -> bool {
        if let Some(s) = self.slots() {
            let mut i = 0;
            rep!({
                if s[i].is_some() {
                    return false;
                }
                i += 1;
            });
            let _ = i;
        }
        true
    }

    pub fn iter(&self) -> Iter<'_, K, V> {
        Iter { slots: self.slots(), pos: 0 }
    }

    pub fn extract_if<F>(&mut self, f: F) -> ExtractIf<'_, K, V, F>
    where
        F: FnMut(&K, &mut V) -> bool,
    {
        ExtractIf { map: self, pos: 0, f }
    }

    pub fn keys(&self) -> Keys<'_, K, V> {
        Keys { inner: self.iter() }
    }

    pub fn values(&self) -> Values<'_, K, V> {
        Values { inner: self.iter() }
    }

    pub fn retain<F>(&mut self, mut f: F)
    where
        F: FnMut(&K, &mut V) -> bool,
    {
        let mut i = 0;
        rep!({
            if let Some(s) = self.slots_mut_opt() {
                let keep = match &mut s[i] {
                    Some(kv) => f(&kv.0, &mut kv.1),
                    None => true,
                };
                if !keep {
                    s[i] = None;
                }
            }
            i += 1;
        });
        let _ = i;
    }

    /// verification-only: the raw slot, for whole-view postconditions
    pub fn slot(&self, i: usize) -> Option<&(K, V)> {
        match self.slots() {
            Some(s) => s[i].as_ref(),
            None => None,
        }
    }
}

impl<K: PartialEq, V> HashMap<K, V> {
    #[inline]
    fn find(&self, k: &K) -> Option<usize> {
        let slots = match self.slots() {
            Some(s) => s,
            None => return None,
        };
        let mut i = 0;
        rep!({
            if let Some((kk, _)) = &slots[i] {
                if kk == k {
                    return Some(i);
                }
            }
            i += 1;
        });
        let _ = i;
        None
    }

    pub fn get(&self, k: &K) -> Option<&V> {
        match (self.find(k), self.slots()) {
            (Some(i), Some(s)) => s[i].as_ref().map(|kv| &kv.1),
            _ => None,
        }
    }

    pub fn contains_key(&self, k: &K) -> bool {
        self.find(k).is_some()
    }

    pub fn get_mut(&mut self, k: &K) -> Option<&mut V> {
        match self.find(k) {
            Some(i) => match &mut self.slots_mut()[i] {
                Some(kv) => Some(&mut kv.1),
                None => None,
            },
            None => None,
        }
    }

    pub fn insert(&mut self, k: K, v: V) -> Option<V> {
        match self.find(&k) {
            Some(i) => {
                let slots = self.slots_mut();
                let old = slots[i].take();
                slots[i] = Some((k, v));
                old.map(|kv| kv.1)
            }
            None => {
                let i = self.free_slot();
                self.slots_mut()[i] = Some((k, v));
                None
            }
        }
    }

    pub fn remove(&mut self, k: &K) -> Option<V> {
        match self.find(k) {
            Some(i) => self.slots_mut()[i].take().map(|kv| kv.1),
            None => None,
        }
    }

    pub fn entry(&mut self, key: K) -> Entry<'_, K, V> {
        let idx = self.find(&key);
        Entry { map: self, key, idx }
    }
}

pub struct Entry<'a, K, V> {
    map: &'a mut HashMap<K, V>,
    key: K,
    idx: Option<usize>,
}

impl<'a, K: PartialEq, V> Entry<'a, K, V> {
    pub fn or_insert(self, default: V) -> &'a mut V {
        let i = match self.idx {
            Some(i) => i,
            None => {
                let i = self.map.free_slot();
                self.map.slots_mut()[i] = Some((self.key, default));
                i
            }
        };
        match &mut self.map.slots_mut()[i] {
            Some(kv) => &mut kv.1,
            None => unreachable!(),
        }
    }

    pub fn and_modify<F: FnOnce(&mut V)>(self, f: F) -> Self {
        if let Some(i) = self.idx {
            if let Some(kv) = &mut self.map.slots_mut()[i] {
                f(&mut kv.1);
            }
        }
        self
    }

    pub fn or_default(self) -> &'a mut V
    where
        V: Default,
    {
        self.or_insert(V::default())
    }
}

pub struct Iter<'a, K, V> {
    slots: Option<&'a Slots<K, V>>,
    pos: usize,
}

impl<'a, K, V> Iterator for Iter<'a, K, V> {
    type Item = (&'a K, &'a V);
    fn next(&mut self) -> Option<Self::Item> {
        let slots = match self.slots {
            Some(s) => s,
            None => return None,
        };
        rep!({
            if self.pos < CAP {
            let i = self.pos;
            self.pos += 1;
            if let Some(kv) = &slots[i] {
                return Some((&kv.0, &kv.1));
            }
            }
        });
        None
    }
}

pub struct Keys<'a, K, V> {
    inner: Iter<'a, K, V>,
}

impl<'a, K, V> Iterator for Keys<'a, K, V> {
    type Item = &'a K;
    fn next(&mut self) -> Option<&'a K> {
        self.inner.next().map(|kv| kv.0)
    }
}

pub struct Values<'a, K, V> {
    inner: Iter<'a, K, V>,
}

impl<'a, K, V> Iterator for Values<'a, K, V> {
    type Item = &'a V;
    fn next(&mut self) -> Option<&'a V> {
        self.inner.next().map(|kv| kv.1)
    }
}

impl<'a, K, V> IntoIterator for &'a HashMap<K, V> {
    type Item = (&'a K, &'a V);
    type IntoIter = Iter<'a, K, V>;
    fn into_iter(self) -> Iter<'a, K, V> {
        self.iter()
    }
}

pub struct IntoIter<K, V> {
    map: HashMap<K, V>,
    pos: usize,
}

impl<K, V> Iterator for IntoIter<K, V> {
    type Item = (K, V);
    fn next(&mut self) -> Option<(K, V)> {
        let slots = match self.map.slots_mut_opt() {
            Some(b) => b,
            None => return None,
        };
        rep!({
            if self.pos < CAP {
            let i = self.pos;
            self.pos += 1;
            if let Some(kv) = slots[i].take() {
                return Some(kv);
            }
            }
        });
        None
    }
}

impl<K, V> IntoIterator for HashMap<K, V> {
    type Item = (K, V);
    type IntoIter = IntoIter<K, V>;
    fn into_iter(self) -> IntoIter<K, V> {
        IntoIter { map: self, pos: 0 }
    }
}

pub struct ExtractIf<'a, K, V, F>
where
    F: FnMut(&K, &mut V) -> bool,
{
    map: &'a mut HashMap<K, V>,
    pos: usize,
    f: F,
}

impl<'a, K, V, F> Iterator for ExtractIf<'a, K, V, F>
where
    F: FnMut(&K, &mut V) -> bool,
{
    type Item = (K, V);
    fn next(&mut self) -> Option<(K, V)> {
        let slots = match self.map.slots_mut_opt() {
            Some(b) => b,
            None => return None,
        };
        rep!({
            if self.pos < CAP {
            let i = self.pos;
            self.pos += 1;
            let hit = match &mut slots[i] {
                Some(kv) => (self.f)(&kv.0, &mut kv.1),
                None => false,
            };
            if hit {
                return slots[i].take();
            }
            }
        });
        None
    }
}

pub struct HashSet<T> {
    store: [Option<T>; CAP],
}

impl<T> Default for HashSet<T> {
    fn default() -> Self {
        Self { store: [const { None }; CAP] }
    }
}

impl<T> HashSet<T> {
    pub fn len(&self) -> usize {
        let b = &self.store;
        let mut n = 0;
        let mut i = 0;
        rep!({
            if b[i].is_some() {
                n += 1;
            }
            i += 1;
        });
        let _ = i;
        n
    }

    pub fn is_empty(&self) -> bool {
        self.len() == 0
    }

    pub fn clear(&mut self) {
        let mut i = 0;
        rep!({
            self.store[i] = None;
            i += 1;
        });
        let _ = i;
    }
}

impl<T: PartialEq> HashSet<T> {
    pub fn remove(&mut self, t: &T) -> bool {
        let mut i = 0;
        rep!({
            let hit = match &self.store[i] {
                Some(x) => x == t,
                None => false,
            };
            if hit {
                self.store[i] = None;
                return true;
            }
            i += 1;
        });
        let _ = i;
        false
    }

    pub fn contains(&self, t: &T) -> bool {
        let b = &self.store;
        let mut i = 0;
        rep!({
            if let Some(x) = &b[i] {
                if x == t {
                    return true;
                }
            }
            i += 1;
        });
        let _ = i;
        false
    }

    pub fn insert(&mut self, t: T) -> bool {
        if self.contains(&t) {
            return false;
        }
        let b = &mut self.store;
        let mut i = 0;
        rep!({
            if b[i].is_none() {
                b[i] = Some(t);
                return true;
            }
            i += 1;
        });
        let _ = i;
        kani::assert(false, "vmap capacity exceeded");
        kani::assume(false);
        false
    }
}

//! Shared helpers for the Kani harnesses.
#![allow(dead_code)]

use core::ptr::NonNull;

use crate::link::{Kind, Link, Links};
use crate::rc::{RcBox, RcInnerPtr};
use crate::Rc;

pub const MAX: usize = usize::MAX;

/// A second handle to the same allocation that owns no count (the harness
/// installs the counts it wants through `set_counts`).
pub fn alias<T>(rc: &Rc<T>) -> Rc<T> {
    unsafe { core::ptr::read(rc) }
}

pub fn set_counts<T>(rc: &Rc<T>, strong: usize, weak: usize) {
    rc.inner().strong_ref().set(strong);
    rc.inner().weak_ref().set(weak);
}

pub fn bx<T>(rc: &Rc<T>) -> &RcBox<T> {
    rc.inner()
}

/// Multiplicity of `link` in the table of `rc` (0 when absent).
pub fn cnt<T>(rc: &Rc<T>, link: Link<T>) -> usize {
    unsafe { rc.inner().links().borrow().get(link) }
}

pub fn table_len<T>(rc: &Rc<T>) -> usize {
    unsafe { rc.inner().links().borrow().len() }
}

pub fn fwd<T>(rc: &Rc<T>) -> Link<T> {
    Link::forward(rc.ptr)
}
pub fn bwd<T>(rc: &Rc<T>) -> Link<T> {
    Link::backward(rc.ptr)
}
pub fn lpb<T>(rc: &Rc<T>) -> Link<T> {
    Link::loopback(rc.ptr)
}

pub fn borrow_free<T>(rc: &Rc<T>) -> bool {
    unsafe { rc.inner().links().try_borrow_mut().is_ok() }
}

pub fn nn<T>(rc: &Rc<T>) -> NonNull<RcBox<T>> {
    rc.ptr
}

pub fn kind_of<T>(l: &Link<T>) -> Kind {
    l.kind()
}

pub fn install<T>(rc: &Rc<T>, link: Link<T>, count: usize) {
    unsafe { rc.inner().links().borrow_mut().set(link, count) }
}

pub fn links_of<T>(rc: &Rc<T>) -> &core::cell::RefCell<Links<T>> {
    unsafe { rc.inner().links() }
}

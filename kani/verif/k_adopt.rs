#![allow(dead_code, unused_imports)]
use super::*;

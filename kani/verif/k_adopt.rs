//! U3: adoption bookkeeping (`adopt_unchecked` / `unadopt`) on the compiled code with the table stand-in.
//! Key structure enumerated (distinct objects / one object through two handles / the same handle),
//! every multiplicity and counter a full-range symbolic usize.
#![allow(dead_code, unused_imports)]
use super::*;
use crate::adopt::Adopt;
use crate::rc::RcInnerPtr;
use crate::verif::util::*;

struct Pre {
    sa: usize,
    wa: usize,
    sb: usize,
    wb: usize,
    fab: usize,
    bba: usize,
    other_a: usize,
    other_b: usize,
}

fn setup(a: &Rc<u8>, b: &Rc<u8>) -> Pre {
    let p = Pre {
        sa: kani::any(),
        wa: kani::any(),
        sb: kani::any(),
        wb: kani::any(),
        fab: kani::any(),
        bba: kani::any(),
        other_a: kani::any(),
        other_b: kani::any(),
    };
    set_counts(a, p.sa, p.wa);
    set_counts(b, p.sb, p.wb);
    // records of the pair under test (0 = absent) and one unrelated record in each table (frame)
    install(a, fwd(b), p.fab);
    install(b, bwd(a), p.bba);
    install(a, bwd(b), p.other_a);
    install(b, fwd(a), p.other_b);
    p
}

fn frame_ok(a: &Rc<u8>, b: &Rc<u8>, p: &Pre) -> bool {
    a.inner().strong() == p.sa
        && a.inner().weak() == p.wa
        && b.inner().strong() == p.sb
        && b.inner().weak() == p.wb
        && cnt(a, bwd(b)) == p.other_a
        && cnt(b, fwd(a)) == p.other_b
        && cnt(a, lpb(a)) == 0
        && cnt(b, lpb(b)) == 0
}

fn keys(x: usize) -> usize {
    if x > 0 {
        1
    } else {
        0
    }
}

#[kani::proof]
#[kani::unwind(6)]
fn u3_adopt_distinct() {
    let a = Rc::new(0u8);
    let b = Rc::new(1u8);
    let p = setup(&a, &b);
    kani::assume(p.fab < MAX && p.bba < MAX);
    unsafe { Rc::adopt_unchecked(&a, &b) };
    kani::assert(cnt(&a, fwd(&b)) == p.fab + 1, "U3.adopt.forward_in_owner_plus_one");
    kani::assert(cnt(&b, bwd(&a)) == p.bba + 1, "U3.adopt.backward_in_target_plus_one");
    kani::assert(frame_ok(&a, &b, &p), "U3.adopt.frame.no_counter_no_other_record_changes");
    kani::assert(table_len(&a) == 1 + keys(p.other_a) && table_len(&b) == 1 + keys(p.other_b), "U3.adopt.no_spurious_keys");
    kani::assert(borrow_free(&a) && borrow_free(&b), "U3.adopt.no_borrow_left");
    core::mem::forget((a, b));
}

#[kani::proof]
#[kani::unwind(6)]
fn u3_unadopt_distinct() {
    let a = Rc::new(0u8);
    let b = Rc::new(1u8);
    let p = setup(&a, &b);
    Rc::unadopt(&a, &b);
    let sat = |x: usize| if x == 0 { 0 } else { x - 1 };
    kani::assert(cnt(&a, fwd(&b)) == sat(p.fab), "U3.unadopt.forward_minus_one_saturating");
    kani::assert(cnt(&b, bwd(&a)) == sat(p.bba), "U3.unadopt.backward_minus_one_saturating");
    kani::assert(frame_ok(&a, &b, &p), "U3.unadopt.frame.no_counter_no_other_record_changes");
    kani::assert(table_len(&a) == keys(sat(p.fab)) + keys(p.other_a) && table_len(&b) == keys(sat(p.bba)) + keys(p.other_b), "U3.unadopt.entries_reaching_zero_are_deleted");
    kani::assert(!links_of(&a).borrow().has_zero_entry() && !links_of(&b).borrow().has_zero_entry(), "U3.unadopt.no_zero_entries");
    kani::assert(borrow_free(&a) && borrow_free(&b), "U3.unadopt.no_borrow_left");
    core::mem::forget((a, b));
}

/// the same allocation through two different handles: one forward and one backward record in the one table
#[kani::proof]
#[kani::unwind(6)]
fn u3_adopt_self_through_clone() {
    let a = Rc::new(0u8);
    let a2 = alias(&a);
    let (s, w, f, bk, l): (usize, usize, usize, usize, usize) = (kani::any(), kani::any(), kani::any(), kani::any(), kani::any());
    kani::assume(f < MAX && bk < MAX);
    set_counts(&a, s, w);
    install(&a, fwd(&a), f);
    install(&a, bwd(&a), bk);
    install(&a, lpb(&a), l);
    unsafe { Rc::adopt_unchecked(&a, &a2) };
    kani::assert(cnt(&a, fwd(&a)) == f + 1 && cnt(&a, bwd(&a)) == bk + 1, "U3.adopt_clone_self.forward_and_backward_plus_one");
    kani::assert(cnt(&a, lpb(&a)) == l, "U3.adopt_clone_self.loopback_untouched");
    kani::assert(a.inner().strong() == s && a.inner().weak() == w, "U3.adopt_clone_self.counters_untouched");
    kani::assert(borrow_free(&a), "U3.adopt_clone_self.no_borrow_left");
    Rc::unadopt(&a, &a2);
    kani::assert(cnt(&a, fwd(&a)) == f && cnt(&a, bwd(&a)) == bk && cnt(&a, lpb(&a)) == l, "U3.unadopt_clone_self.inverse_of_adopt");
    kani::assert(a.inner().strong() == s && a.inner().weak() == w, "U3.unadopt_clone_self.counters_untouched");
    core::mem::forget((a, a2));
}

/// the very same handle: a loopback record only
#[kani::proof]
#[kani::unwind(6)]
fn u3_adopt_same_handle() {
    let a = Rc::new(0u8);
    let (s, w, f, bk, l): (usize, usize, usize, usize, usize) = (kani::any(), kani::any(), kani::any(), kani::any(), kani::any());
    kani::assume(l < MAX);
    set_counts(&a, s, w);
    install(&a, fwd(&a), f);
    install(&a, bwd(&a), bk);
    install(&a, lpb(&a), l);
    unsafe { Rc::adopt_unchecked(&a, &a) };
    kani::assert(cnt(&a, lpb(&a)) == l + 1, "U3.adopt_same_handle.loopback_plus_one");
    kani::assert(cnt(&a, fwd(&a)) == f && cnt(&a, bwd(&a)) == bk, "U3.adopt_same_handle.no_forward_backward_change");
    kani::assert(a.inner().strong() == s && a.inner().weak() == w, "U3.adopt_same_handle.counters_untouched");
    Rc::unadopt(&a, &a);
    kani::assert(cnt(&a, lpb(&a)) == l && cnt(&a, fwd(&a)) == f && cnt(&a, bwd(&a)) == bk, "U3.unadopt_same_handle.inverse_and_only_loopback");
    Rc::unadopt(&a, &a);
    kani::assert(cnt(&a, lpb(&a)) == (if l == 0 { 0 } else { l - 1 }) && cnt(&a, fwd(&a)) == f && cnt(&a, bwd(&a)) == bk, "U3.unadopt_same_handle.saturating_noop_when_absent");
    kani::assert(borrow_free(&a), "U3.same_handle.no_borrow_left");
    core::mem::forget(a);
}

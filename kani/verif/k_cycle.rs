//! U4 on the compiled code.  The unbounded proof of the trace and of the orphan test is the Verus
//! pipeline; these harnesses are the modular twin for changes that the extraction rules cannot carry:
//! `orphaned_cycle` is run on the real code with `cycle_refs` replaced by its (Verus-proved) contract for
//! a fixed two-object structure with symbolic counts.
#![allow(dead_code, unused_imports, static_mut_refs)]
use super::*;
use crate::rc::RcBox;
use crate::verif::util::*;
use core::ptr::NonNull;

static mut STUB_N: usize = 0;
static mut STUB_PTR: [*mut (); 2] = [core::ptr::null_mut(); 2];
static mut STUB_CNT: [usize; 2] = [0; 2];
static mut STUB_CALLS: usize = 0;

/// contract stub of `cycle_refs` for the harness's structure: returns the map registered by the harness
fn stub_cycle_refs<T>(_this: Link<T>) -> HashMap<Link<T>, usize> {
    let mut m: HashMap<Link<T>, usize> = HashMap::default();
    unsafe {
        STUB_CALLS += 1;
        if STUB_N >= 1 {
            m.insert(Link::forward(NonNull::new_unchecked(STUB_PTR[0] as *mut RcBox<T>)), STUB_CNT[0]);
        }
        if STUB_N >= 2 {
            m.insert(Link::forward(NonNull::new_unchecked(STUB_PTR[1] as *mut RcBox<T>)), STUB_CNT[1]);
        }
    }
    m
}

/// `orphaned_cycle`: Some(trace map) iff the map is non-empty and no traced object has strong > count;
/// reads only; traces exactly once.
#[kani::proof]
#[kani::unwind(7)]
#[kani::stub(crate::cycle::cycle_refs, stub_cycle_refs)]
fn u4_orphan_test_exact() {
    let a = Rc::new(1u8);
    let b = Rc::new(2u8);
    let (sa, wa, sb, wb): (usize, usize, usize, usize) = (kani::any(), kani::any(), kani::any(), kani::any());
    let (ca, cb, n): (usize, usize, usize) = (kani::any(), kani::any(), kani::any());
    kani::assume(n <= 2);
    set_counts(&a, sa, wa);
    set_counts(&b, sb, wb);
    // a holds b (recorded k times), b holds a (recorded j times): the tables exist as they would in the
    // traced structure, so that code that reads them (instead of only the trace result) is exercised too
    let (k, j): (usize, usize) = (kani::any(), kani::any());
    install(&a, fwd(&b), k);
    install(&b, bwd(&a), k);
    install(&b, fwd(&a), j);
    install(&a, bwd(&b), j);
    unsafe {
        STUB_N = n;
        STUB_PTR = [a.ptr.as_ptr() as *mut (), b.ptr.as_ptr() as *mut ()];
        STUB_CNT = [ca, cb];
    }
    let r = Rc::orphaned_cycle(&a);
    let want = n >= 1 && sa <= ca && (n < 2 || sb <= cb);
    kani::assert(r.is_some() == want, "U4.orphan_test.some_iff_nonempty_and_no_traced_object_has_strong_above_count");
    if let Some(m) = &r {
        kani::assert(m.len() == n, "U4.orphan_test.returns_the_trace_map_keys");
        kani::assert(m.get(&fwd(&a)) == Some(&ca) && (n < 2 || m.get(&fwd(&b)) == Some(&cb)), "U4.orphan_test.returns_the_trace_map_counts");
    }
    kani::assert(unsafe { STUB_CALLS } == 1, "U4.orphan_test.traces_exactly_once");
    kani::assert(a.inner().strong() == sa && a.inner().weak() == wa && b.inner().strong() == sb && b.inner().weak() == wb, "U4.orphan_test.reads_only");
    kani::assert(cnt(&a, fwd(&b)) == k && cnt(&b, fwd(&a)) == j && borrow_free(&a) && borrow_free(&b), "U4.orphan_test.tables_untouched_no_borrow_left");
    core::mem::forget(r);
    core::mem::forget((a, b));
}

/// The trace itself on the compiled code: two-object ring with symbolic multiplicities, traced from a.
#[kani::proof]
#[kani::unwind(7)]
fn u4_trace_ring2() {
    let a = Rc::new(1u8);
    let b = Rc::new(2u8);
    let (k, j): (usize, usize) = (kani::any(), kani::any());
    kani::assume(k >= 1 && j >= 1);
    install(&a, fwd(&b), k);
    install(&b, bwd(&a), k);
    install(&b, fwd(&a), j);
    install(&a, bwd(&b), j);
    let m = cycle_refs(fwd(&a));
    kani::assert(m.len() == 2, "U4.trace.ring2.keys_are_exactly_the_two_members");
    kani::assert(m.get(&fwd(&b)) == Some(&k) && m.get(&fwd(&a)) == Some(&j), "U4.trace.ring2.counts_are_the_recorded_multiplicities");
    kani::assert(borrow_free(&a) && borrow_free(&b), "U4.trace.no_borrow_left");
    core::mem::forget(m);
    core::mem::forget((a, b));
}

/// an outside owner c of a ring member appears with count 0 (so the orphan test can see it); a loopback
/// record on a has no influence
#[kani::proof]
#[kani::unwind(7)]
fn u4_trace_outside_owner() {
    let a = Rc::new(1u8);
    let c = Rc::new(3u8);
    let (k, l): (usize, usize) = (kani::any(), kani::any());
    kani::assume(k >= 1);
    // a holds itself k times (through clones), c holds a once, a has l same-handle self-adoptions
    install(&a, fwd(&a), k);
    install(&a, bwd(&a), k);
    install(&a, lpb(&a), l);
    install(&c, fwd(&a), 1);
    install(&a, bwd(&c), 1);
    let m = cycle_refs(fwd(&a));
    kani::assert(m.len() == 2, "U4.trace.outside_owner.keys_are_member_and_adopter");
    kani::assert(m.get(&fwd(&a)) == Some(&k), "U4.trace.outside_owner.member_count_ignores_loopback_and_untraced_owner");
    kani::assert(m.get(&fwd(&c)) == Some(&0), "U4.trace.outside_owner.untraced_adopter_has_count_zero");
    core::mem::forget(m);
    core::mem::forget((a, c));
}

//! U4 bounded twin: the reachability trace and the orphan test on the compiled code (with the table
//! stand-in), on small concrete graph structures with symbolic multiplicities.  The unbounded proof of
//! the same contract is the Verus pipeline; this twin exists for changes that the extraction rules
//! cannot carry and for counterexamples.
#![allow(dead_code, unused_imports)]
use super::*;
use crate::verif::util::*;

/// two objects, a -> b recorded `k` times; b holds nothing.  Trace from a.
#[kani::proof]
#[kani::unwind(7)]
fn u4_trace_chain2() {
    let a = Rc::new(0u8);
    let b = Rc::new(1u8);
    let k: usize = kani::any();
    kani::assume(k >= 1);
    install(&a, fwd(&b), k);
    install(&b, bwd(&a), k);
    let m = cycle_refs(fwd(&a));
    kani::assert(m.len() == 1, "U4.trace.chain2.exactly_one_key");
    kani::assert(m.get(&fwd(&b)) == Some(&k), "U4.trace.chain2.count_is_multiplicity");
    core::mem::forget(m);
    core::mem::forget((a, b));
}

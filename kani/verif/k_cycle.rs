//! U4 on the compiled code.  The unbounded proof of the trace and of the orphan test is the Verus
//! pipeline; these harnesses are the modular twin for changes that the extraction rules cannot carry:
//! `orphaned_cycle` is run on the real code with `cycle_refs` replaced by its (Verus-proved) contract for
//! a fixed two-object structure with symbolic counts.
#![allow(dead_code, unused_imports, static_mut_refs)]
use super::*;
use crate::rc::RcBox;
use crate::verif::util::*;
use core::ptr::NonNull;

static mut STUB_N: usize = 0;
static mut STUB_PTR: [*mut (); 2] = [core::ptr::null_mut(); 2];
static mut STUB_CNT: [usize; 2] = [0; 2];
static mut STUB_CALLS: usize = 0;

/// contract stub of `cycle_refs` for the harness's structure: returns the map registered by the harness
fn stub_cycle_refs<T>(_this: Link<T>) -> HashMap<Link<T>, usize> {
    let mut m: HashMap<Link<T>, usize> = HashMap::default();
    unsafe {
        STUB_CALLS += 1;
        if STUB_N >= 1 {
            m.insert(Link::forward(NonNull::new_unchecked(STUB_PTR[0] as *mut RcBox<T>)), STUB_CNT[0]);
        }
        if STUB_N >= 2 {
            m.insert(Link::forward(NonNull::new_unchecked(STUB_PTR[1] as *mut RcBox<T>)), STUB_CNT[1]);
        }
    }
    m
}

/// `orphaned_cycle`: Some(trace map) iff the map is non-empty and no traced object has strong > count;
/// reads only; traces exactly once.
#[kani::proof]
#[kani::unwind(7)]
#[kani::stub(crate::cycle::cycle_refs, stub_cycle_refs)]
fn u4_orphan_test_exact() {
    let a = Rc::new(1u8);
    let b = Rc::new(2u8);
    let (sa, wa, sb, wb): (usize, usize, usize, usize) = (kani::any(), kani::any(), kani::any(), kani::any());
    let (ca, cb, n): (usize, usize, usize) = (kani::any(), kani::any(), kani::any());
    kani::assume(n <= 2);
    set_counts(&a, sa, wa);
    set_counts(&b, sb, wb);
    // a holds b (recorded k times), b holds a (recorded j times): the tables exist as they would in the
    // traced structure, so that code that reads them (instead of only the trace result) is exercised too
    let (k, j): (usize, usize) = (kani::any(), kani::any());
    install(&a, fwd(&b), k);
    install(&b, bwd(&a), k);
    install(&b, fwd(&a), j);
    install(&a, bwd(&b), j);
    unsafe {
        STUB_N = n;
        STUB_PTR = [a.ptr.as_ptr() as *mut (), b.ptr.as_ptr() as *mut ()];
        STUB_CNT = [ca, cb];
    }
    let r = Rc::orphaned_cycle(&a);
    let want = n >= 1 && sa <= ca && (n < 2 || sb <= cb);
    kani::assert(r.is_some() == want, "U4.orphan_test.some_iff_nonempty_and_no_traced_object_has_strong_above_count");
    if let Some(m) = &r {
        kani::assert(m.len() == n, "U4.orphan_test.returns_the_trace_map_keys");
        kani::assert(m.get(&fwd(&a)) == Some(&ca) && (n < 2 || m.get(&fwd(&b)) == Some(&cb)), "U4.orphan_test.returns_the_trace_map_counts");
    }
    kani::assert(unsafe { STUB_CALLS } == 1, "U4.orphan_test.traces_exactly_once");
    kani::assert(a.inner().strong() == sa && a.inner().weak() == wa && b.inner().strong() == sb && b.inner().weak() == wb, "U4.orphan_test.reads_only");
    kani::assert(cnt(&a, fwd(&b)) == k && cnt(&b, fwd(&a)) == j && borrow_free(&a) && borrow_free(&b), "U4.orphan_test.tables_untouched_no_borrow_left");
    core::mem::forget(r);
    core::mem::forget((a, b));
}

// ------------------------------------------------------------ the trace itself, bounded twin
// `cycle_refs` on the compiled code.  CBMC cannot propagate constants through `RcBox.links` (a
// `MaybeUninit` union member of a heap object, DESIGN.md 12.5), which makes the work-list x table loops
// intractable.  The twin therefore replaces the three-line accessor `RcBox::links()` by its contract
// ("returns the table of this object") with the tables kept in harness-owned statics; everything else --
// the work-list, the visited set, the counting, the back-link handling -- is the real compiled code.
use crate::link::Links;
use core::cell::RefCell;

static mut TBL: [Option<RefCell<Links<u8>>>; 3] = [None, None, None];
static mut TBL_OWNER: [usize; 3] = [0; 3];

unsafe fn stub_links<T>(this: &RcBox<T>) -> &RefCell<Links<T>> {
    let addr = this as *const RcBox<T> as usize;
    let i = if addr == TBL_OWNER[0] {
        0
    } else if addr == TBL_OWNER[1] {
        1
    } else {
        kani::assert(addr == TBL_OWNER[2], "X.trace_twin.dereferences_only_registered_objects");
        2
    };
    let r: &RefCell<Links<u8>> = match &TBL[i] {
        Some(r) => r,
        None => unreachable!(),
    };
    &*(r as *const RefCell<Links<u8>> as *const RefCell<Links<T>>)
}

fn own_table(i: usize, rc: &Rc<u8>) {
    unsafe {
        TBL_OWNER[i] = rc.ptr.as_ptr() as usize;
        TBL[i] = Some(RefCell::new(Links::new()));
    }
}

/// the trace contract (Verus: `trace_result`) is a function of the tables only: the counters of every object are
/// arbitrary live values, so any dependence of the result on them (early exits, filters) is refuted
fn sym_counters(rc: &Rc<u8>) {
    let (s, w): (usize, usize) = (kani::any(), kani::any());
    kani::assume(s != usize::MAX);
    set_counts(rc, s, w);
}

fn put(i: usize, l: Link<u8>, c: usize) {
    unsafe {
        if let Some(t) = &TBL[i] {
            t.borrow_mut().set(l, c);
        }
    }
}

/// two-object ring (a holds b twice, b holds a once), traced from a
#[kani::proof]
#[kani::unwind(7)]
#[kani::stub(crate::rc::RcBox::links, stub_links)]
fn u4_trace_ring2() {
    let a = Rc::new(1u8);
    let b = Rc::new(2u8);
    own_table(0, &a);
    own_table(1, &b);
    sym_counters(&a);
    sym_counters(&b);
    // concrete multiplicities: with symbolic ones the same harness needs > 14 GB (DESIGN.md 12.5)
    let (k, j): (usize, usize) = (2, 1);
    put(0, fwd(&b), k);
    put(1, bwd(&a), k);
    put(1, fwd(&a), j);
    put(0, bwd(&b), j);
    let m = cycle_refs(fwd(&a));
    kani::assert(m.len() == 2, "U4.trace.ring2.keys_are_exactly_the_two_members");
    kani::assert(m.get(&fwd(&b)) == Some(&k) && m.get(&fwd(&a)) == Some(&j), "U4.trace.ring2.counts_are_the_recorded_multiplicities");
    core::mem::forget(m);
    core::mem::forget((a, b));
}

/// an outside owner c of the traced object appears with count 0 (so that the orphan test can see it), a
/// same-handle self-adoption (Loopback) has no influence, a self-adoption through a clone is counted
#[kani::proof]
#[kani::unwind(7)]
#[kani::stub(crate::rc::RcBox::links, stub_links)]
fn u4_trace_outside_owner() {
    let a = Rc::new(1u8);
    let c = Rc::new(3u8);
    own_table(0, &a);
    own_table(1, &c);
    sym_counters(&a);
    sym_counters(&c);
    let (k, l): (usize, usize) = (2, 3);
    put(0, fwd(&a), k);
    put(0, bwd(&a), k);
    put(0, lpb(&a), l);
    put(1, fwd(&a), 1);
    put(0, bwd(&c), 1);
    let m = cycle_refs(fwd(&a));
    kani::assert(m.len() == 2, "U4.trace.outside_owner.keys_are_member_and_adopter");
    kani::assert(m.get(&fwd(&a)) == Some(&k), "U4.trace.outside_owner.member_count_ignores_loopback_and_untraced_owner");
    kani::assert(m.get(&fwd(&c)) == Some(&0), "U4.trace.outside_owner.untraced_adopter_has_count_zero");
    core::mem::forget(m);
    core::mem::forget((a, c));
}

/// two owners of t with unequal multiplicities (a holds t twice, b holds t once, t holds a and b), traced
/// from t: the count of t is the sum over both owners whatever the order in which they are discovered
#[kani::proof]
#[kani::unwind(8)]
#[kani::stub(crate::rc::RcBox::links, stub_links)]
fn u4_trace_two_owners() {
    let t = Rc::new(0u8);
    let a = Rc::new(1u8);
    let b = Rc::new(2u8);
    own_table(0, &t);
    own_table(1, &a);
    own_table(2, &b);
    sym_counters(&t);
    sym_counters(&a);
    sym_counters(&b);
    put(0, fwd(&a), 1);
    put(1, bwd(&t), 1);
    put(0, fwd(&b), 1);
    put(2, bwd(&t), 1);
    put(1, fwd(&t), 2);
    put(0, bwd(&a), 2);
    put(2, fwd(&t), 1);
    put(0, bwd(&b), 1);
    let m = cycle_refs(fwd(&t));
    kani::assert(m.len() == 3, "U4.trace.two_owners.keys_are_the_three_members");
    kani::assert(m.get(&fwd(&t)) == Some(&3), "U4.trace.two_owners.count_is_sum_over_distinct_owners");
    kani::assert(m.get(&fwd(&a)) == Some(&1) && m.get(&fwd(&b)) == Some(&1), "U4.trace.two_owners.owner_counts");
    core::mem::forget(m);
    core::mem::forget((t, a, b));
}

/// acyclic tail: a -> b -> c, traced from a: every adoptee is a key with its owner's multiplicity, the
/// start object is not a key (nothing adopts it)
#[kani::proof]
#[kani::unwind(8)]
#[kani::stub(crate::rc::RcBox::links, stub_links)]
fn u4_trace_chain3() {
    let a = Rc::new(0u8);
    let b = Rc::new(1u8);
    let c = Rc::new(2u8);
    own_table(0, &a);
    own_table(1, &b);
    own_table(2, &c);
    sym_counters(&a);
    sym_counters(&b);
    sym_counters(&c);
    put(0, fwd(&b), 1);
    put(1, bwd(&a), 1);
    put(1, fwd(&c), 2);
    put(2, bwd(&b), 2);
    let m = cycle_refs(fwd(&a));
    kani::assert(m.len() == 3, "U4.trace.chain3.keys_are_adoptees_and_adopters");
    kani::assert(m.get(&fwd(&b)) == Some(&1) && m.get(&fwd(&c)) == Some(&2), "U4.trace.chain3.counts_are_the_recorded_multiplicities");
    kani::assert(m.get(&fwd(&a)) == Some(&0), "U4.trace.chain3.start_object_appears_as_adopter_with_count_zero");
    core::mem::forget(m);
    core::mem::forget((a, b, c));
}

// ---- U2: `Link`'s `Hash` agrees with its `Eq` (discharges the exec half of the Verus assumption
// `axiom_key_models`: "equal keys hash equally" for EVERY hasher, because equal keys feed it identical input)
pub struct RecHasher {
    pub n: usize,
    pub tag: [u8; 4],
    pub val: [u64; 4],
}

impl RecHasher {
    fn push(&mut self, tag: u8, val: u64) {
        if self.n < 4 {
            self.tag[self.n] = tag;
            self.val[self.n] = val;
        }
        self.n += 1;
    }
}

impl core::hash::Hasher for RecHasher {
    fn finish(&self) -> u64 {
        0
    }
    fn write(&mut self, bytes: &[u8]) {
        // raw byte input is recorded by length and first byte only; the harness requires that it is never used
        self.push(99, ((bytes.len() as u64) << 8) | (if bytes.is_empty() { 0 } else { bytes[0] as u64 }));
    }
    fn write_u8(&mut self, i: u8) {
        self.push(1, i as u64);
    }
    fn write_u16(&mut self, i: u16) {
        self.push(2, i as u64);
    }
    fn write_u32(&mut self, i: u32) {
        self.push(3, i as u64);
    }
    fn write_u64(&mut self, i: u64) {
        self.push(4, i);
    }
    fn write_usize(&mut self, i: usize) {
        self.push(5, i as u64);
    }
    fn write_i8(&mut self, i: i8) {
        self.push(6, i as u64);
    }
    fn write_i16(&mut self, i: i16) {
        self.push(7, i as u64);
    }
    fn write_i32(&mut self, i: i32) {
        self.push(8, i as u64);
    }
    fn write_i64(&mut self, i: i64) {
        self.push(9, i as u64);
    }
    fn write_isize(&mut self, i: isize) {
        self.push(10, i as u64);
    }
}

fn any_link() -> Link<u8> {
    let addr: usize = kani::any();
    kani::assume(addr != 0);
    let p = unsafe { NonNull::new_unchecked(addr as *mut RcBox<u8>) };
    let k: u8 = kani::any();
    kani::assume(k < 3);
    if k == 0 {
        Link::forward(p)
    } else if k == 1 {
        Link::backward(p)
    } else {
        Link::loopback(p)
    }
}

fn feed(l: &Link<u8>) -> RecHasher {
    let mut h = RecHasher { n: 0, tag: [0; 4], val: [0; 4] };
    core::hash::Hash::hash(l, &mut h);
    h
}

/// over ALL addresses and kinds (loop-free: complete): `==` is an equivalence relation that is exactly
/// "same kind and same address", and equal links feed identical input to any hasher
#[kani::proof]
fn u2_link_hash_agrees_with_eq() {
    let (a, b, c) = (any_link(), any_link(), any_link());
    kani::assert(a == a, "U2.link_eq.reflexive");
    kani::assert((a == b) == (b == a), "U2.link_eq.symmetric");
    kani::assert(!(a == b && b == c) || a == c, "U2.link_eq.transitive");
    let same = a.kind() == b.kind() && a.as_ptr() as usize == b.as_ptr() as usize;
    kani::assert((a == b) == same, "U2.link_eq.iff_same_kind_and_same_address");
    let (ha, hb) = (feed(&a), feed(&b));
    kani::assert(ha.n >= 1 && ha.n <= 4, "U2.link_hash.feeds_between_one_and_four_words");
    let same_feed = ha.n == hb.n && ha.tag == hb.tag && ha.val == hb.val;
    kani::assert(!(a == b) || same_feed, "U2.link_hash.equal_links_feed_identical_hasher_input");
    kani::cover!(a == b, "equal links are reachable");
    kani::cover!(!(a == b), "distinct links are reachable");
}

//! Verification-only code, compiled under `cfg(kani)`.  Supplied by /verif at
//! check time (copied into the scratch copy of the crate as `src/verif/`).
pub mod vmap;
pub mod util;

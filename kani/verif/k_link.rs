//! cfg(kani) accessors for `Links` and harnesses for U2 (table operations) on
//! the compiled code (bounded cross-check of the Verus contracts).
#![allow(dead_code)]
use super::*;

impl<T> Links<T> {
    /// multiplicity of `l` (0 when absent)
    pub fn get(&self, l: Link<T>) -> usize {
        match self.registry.get(&l) {
            Some(c) => *c,
            None => 0,
        }
    }
    pub fn len(&self) -> usize {
        self.registry.len()
    }
    /// installs a multiplicity without a loop (0 removes the entry)
    pub fn set(&mut self, l: Link<T>, c: usize) {
        if c == 0 {
            self.registry.remove(&l);
        } else {
            self.registry.insert(l, c);
        }
    }
    pub fn set_tag(&mut self, tag: u8) {
        self.registry.tag = tag;
    }
    pub fn has_zero_entry(&self) -> bool {
        let mut i = 0;
        while i < crate::verif::vmap::CAP {
            if let Some(kv) = self.registry.slot(i) {
                if kv.1 == 0 {
                    return true;
                }
            }
            i += 1;
        }
        false
    }
}

//! Replays a history of API calls against the *real* cactusref crate (real
//! hashbrown tables, no verification hooks) and reports what the properties
//! talk about: which destructors ran and when, whether a value that a held
//! handle can still reach was destroyed, whether counts are exact, whether a
//! panic escaped.  Used for counterexamples and for the recorded findings.
//!
//! History syntax: ops separated by `;` or newlines, `#` starts a comment.
//!   new                 push a handle to a fresh object
//!   clone H             push a clone of handle H
//!   drop H              drop handle H
//!   adopt A B           Rc::adopt_unchecked(&H[A], &H[B])   (A == B: the same &Rc)
//!   unadopt A B         Rc::unadopt(&H[A], &H[B])
//!   store A B           move handle B into the value of the object H[A] points at
//!   take A S            move slot S of that object's value back out (new handle)
//!   dropslot A S        drop slot S of that object's value
//!   downgrade H         push a Weak
//!   wclone W | wdrop W | upgrade W (pushes a handle or an empty entry)
//!   wstore A W          move Weak W into the value of the object H[A] points at
//!   try_unwrap H | make_mut H | get_mut H | raw_roundtrip H | inc_strong H | dec_strong H
//!   expect_alive O | expect_dead O      O is an object id (creation order)
//!   expect_upgrade W some|none
//! The shadow ledger (who holds which handle) is maintained from the ops
//! themselves and never by reading through the library's pointers.

use cactusref::{Adopt, Rc, Weak};
use std::cell::{Cell, RefCell};
use std::panic::{catch_unwind, AssertUnwindSafe};

const ALIVE: u64 = 0xA11CE_A11CE;
const DEAD: u64 = 0xDEAD_DEAD;

thread_local! {
    static LOG: RefCell<Vec<usize>> = RefCell::new(Vec::new());
    static INNER_OBS: RefCell<Vec<String>> = RefCell::new(Vec::new());
    /// Weak handles a destructor should probe (object id -> weak), set by `watch`.
    static WATCH: RefCell<Vec<(usize, Weak<Node>)>> = RefCell::new(Vec::new());
}

struct Node {
    id: usize,
    canary: Cell<u64>,
    slots: RefCell<Vec<Option<Rc<Node>>>>,
    wslots: RefCell<Vec<Option<Weak<Node>>>>,
}

impl Clone for Node {
    fn clone(&self) -> Self {
        Node {
            id: self.id + 1000,
            canary: Cell::new(ALIVE),
            slots: RefCell::new(Vec::new()),
            wslots: RefCell::new(Vec::new()),
        }
    }
}

impl Drop for Node {
    fn drop(&mut self) {
        if self.canary.get() != ALIVE {
            INNER_OBS.with(|o| o.borrow_mut().push(format!("destructor of {} ran on a non-intact value", self.id)));
        }
        self.canary.set(DEAD);
        LOG.with(|l| l.borrow_mut().push(self.id));
        // C05 from inside destructors: every watched Weak to an already destroyed
        // object must refuse to upgrade and report zero counts.
        WATCH.with(|w| {
            if let Ok(w) = w.try_borrow() {
                let destroyed: Vec<usize> = LOG.with(|l| l.borrow().clone());
                for (oid, weak) in w.iter() {
                    if destroyed.contains(oid) {
                        if weak.upgrade().is_some() {
                            INNER_OBS.with(|o| o.borrow_mut().push(format!("inside destructor of {}: upgrade of dead {} succeeded", self.id, oid)));
                        }
                        if weak.strong_count() != 0 || weak.weak_count() != 0 {
                            INNER_OBS.with(|o| o.borrow_mut().push(format!("inside destructor of {}: dead {} reports counts {}/{}", self.id, oid, weak.strong_count(), weak.weak_count())));
                        }
                    }
                }
            }
        });
    }
}

#[derive(Clone, Default)]
struct ShadowObj {
    slots: Vec<Option<usize>>,
    wslots: Vec<Option<usize>>,
    destroyed: u32,
    unwrapped: bool,
}

struct St {
    h: Vec<Option<Rc<Node>>>,
    hs: Vec<Option<usize>>,
    w: Vec<Option<Weak<Node>>>,
    ws: Vec<Option<usize>>,
    objs: Vec<ShadowObj>,
    /// values moved out by try_unwrap, kept alive by the program
    kept: Vec<Node>,
    violations: Vec<String>,
}

fn reachable(st: &St) -> Vec<bool> {
    let mut seen = vec![false; st.objs.len()];
    let mut work: Vec<usize> = st.hs.iter().flatten().copied().collect();
    // values moved out by try_unwrap are program-held too
    while let Some(o) = work.pop() {
        if o >= seen.len() || seen[o] {
            continue;
        }
        seen[o] = true;
        for t in st.objs[o].slots.iter().flatten() {
            work.push(*t);
        }
    }
    seen
}

fn strong_handles_to(st: &St, o: usize) -> usize {
    let mut n = st.hs.iter().flatten().filter(|&&t| t == o).count();
    for (_i, so) in st.objs.iter().enumerate() {
        if so.destroyed == 0 || so.unwrapped {
            n += so.slots.iter().flatten().filter(|&&t| t == o).count();
        }
    }
    n
}

fn weak_handles_to(st: &St, o: usize) -> usize {
    let mut n = st.ws.iter().flatten().filter(|&&t| t == o).count();
    for so in st.objs.iter() {
        if so.destroyed == 0 || so.unwrapped {
            n += so.wslots.iter().flatten().filter(|&&t| t == o).count();
        }
    }
    n
}

fn arg(tok: &[&str], i: usize) -> usize {
    tok.get(i).and_then(|s| s.parse().ok()).unwrap_or_else(|| panic!("bad op: {:?}", tok))
}

fn step(st: &mut St, tok: &[&str]) {
    match tok[0] {
        "new" => {
            let id = st.objs.len();
            st.objs.push(ShadowObj::default());
            st.h.push(Some(Rc::new(Node {
                id,
                canary: Cell::new(ALIVE),
                slots: RefCell::new(Vec::new()),
                wslots: RefCell::new(Vec::new()),
            })));
            st.hs.push(Some(id));
        }
        "clone" => {
            let a = arg(tok, 1);
            let c = st.h[a].as_ref().expect("clone of empty handle").clone();
            st.h.push(Some(c));
            st.hs.push(st.hs[a]);
        }
        "drop" => {
            let a = arg(tok, 1);
            st.hs[a] = None; // the handle is gone whatever happens next
            let x = st.h[a].take();
            drop(x);
        }
        "adopt" => {
            let (a, b) = (arg(tok, 1), arg(tok, 2));
            unsafe { Rc::adopt_unchecked(st.h[a].as_ref().unwrap(), st.h[b].as_ref().unwrap()) };
        }
        "unadopt" => {
            let (a, b) = (arg(tok, 1), arg(tok, 2));
            Rc::unadopt(st.h[a].as_ref().unwrap(), st.h[b].as_ref().unwrap());
        }
        "store" => {
            let (a, b) = (arg(tok, 1), arg(tok, 2));
            let x = st.h[b].take().expect("store of empty handle");
            let tb = st.hs[b].take().unwrap();
            let oa = st.hs[a].unwrap();
            st.h[a].as_ref().unwrap().slots.borrow_mut().push(Some(x));
            st.objs[oa].slots.push(Some(tb));
        }
        "take" => {
            let (a, s) = (arg(tok, 1), arg(tok, 2));
            let oa = st.hs[a].unwrap();
            let x = st.h[a].as_ref().unwrap().slots.borrow_mut()[s].take();
            let t = st.objs[oa].slots[s].take();
            st.h.push(x);
            st.hs.push(t);
        }
        "dropslot" => {
            let (a, s) = (arg(tok, 1), arg(tok, 2));
            let oa = st.hs[a].unwrap();
            st.objs[oa].slots[s] = None;
            let x = st.h[a].as_ref().unwrap().slots.borrow_mut()[s].take();
            drop(x);
        }
        "downgrade" => {
            let a = arg(tok, 1);
            st.w.push(Some(Rc::downgrade(st.h[a].as_ref().unwrap())));
            st.ws.push(st.hs[a]);
        }
        "watch" => {
            let a = arg(tok, 1);
            let o = st.hs[a].unwrap();
            let wk = Rc::downgrade(st.h[a].as_ref().unwrap());
            WATCH.with(|w| w.borrow_mut().push((o, wk.clone())));
            st.w.push(Some(wk));
            st.ws.push(Some(o));
            // the WATCH copy is one more Weak: account for it as a program weak
            st.w.push(None);
            st.ws.push(Some(o));
        }
        "wclone" => {
            let a = arg(tok, 1);
            let c = st.w[a].as_ref().unwrap().clone();
            st.w.push(Some(c));
            st.ws.push(st.ws[a]);
        }
        "wdrop" => {
            let a = arg(tok, 1);
            st.ws[a] = None;
            let x = st.w[a].take();
            drop(x);
        }
        "upgrade" => {
            let a = arg(tok, 1);
            let o = st.ws[a].unwrap();
            let r = st.w[a].as_ref().unwrap().upgrade();
            let should = st.objs[o].destroyed == 0 && !st.objs[o].unwrapped;
            if r.is_some() != should {
                st.violations.push(format!("C05 upgrade of weak {} to object {} returned {} but value destroyed={}", a, o, if r.is_some() { "Some" } else { "None" }, !should));
            }
            st.hs.push(if r.is_some() { Some(o) } else { None });
            st.h.push(r);
        }
        "wstore" => {
            let (a, b) = (arg(tok, 1), arg(tok, 2));
            let x = st.w[b].take().unwrap();
            let tb = st.ws[b].take().unwrap();
            let oa = st.hs[a].unwrap();
            st.h[a].as_ref().unwrap().wslots.borrow_mut().push(Some(x));
            st.objs[oa].wslots.push(Some(tb));
        }
        "try_unwrap" => {
            let a = arg(tok, 1);
            let o = st.hs[a].take().unwrap();
            match Rc::try_unwrap(st.h[a].take().unwrap()) {
                Ok(v) => {
                    st.objs[o].unwrapped = true;
                    st.kept.push(v);
                }
                Err(rc) => {
                    st.h[a] = Some(rc);
                    st.hs[a] = Some(o);
                }
            }
        }
        "make_mut" => {
            let a = arg(tok, 1);
            let o = st.hs[a].unwrap();
            let before = Rc::as_ptr(st.h[a].as_ref().unwrap());
            let _ = Rc::make_mut(st.h[a].as_mut().unwrap());
            let after = Rc::as_ptr(st.h[a].as_ref().unwrap());
            if before != after {
                // the handle now points at a fresh object
                let id = st.objs.len();
                let mut so = ShadowObj::default();
                let stolen = strong_handles_to(st, o) == 1;
                if stolen {
                    so.slots = std::mem::take(&mut st.objs[o].slots);
                    so.wslots = std::mem::take(&mut st.objs[o].wslots);
                    st.objs[o].unwrapped = true;
                    st.objs[o].destroyed = 1; // value moved away: Weak must report dead
                }
                st.objs.push(so);
                st.hs[a] = Some(id);
            }
        }
        "get_mut" => {
            let a = arg(tok, 1);
            let o = st.hs[a].unwrap();
            let uniq = strong_handles_to(st, o) == 1 && weak_handles_to(st, o) == 0;
            let r = Rc::get_mut(st.h[a].as_mut().unwrap()).is_some();
            if r != uniq {
                st.violations.push(format!("C07 get_mut returned {} but unique={}", r, uniq));
            }
        }
        "raw_roundtrip" => {
            let a = arg(tok, 1);
            let p = Rc::into_raw(st.h[a].take().unwrap());
            st.h[a] = Some(unsafe { Rc::from_raw(p) });
        }
        "inc_strong" => {
            let a = arg(tok, 1);
            let p = Rc::as_ptr(st.h[a].as_ref().unwrap());
            unsafe { Rc::increment_strong_count(p) };
            st.h.push(Some(unsafe { Rc::from_raw(p) }));
            st.hs.push(st.hs[a]);
        }
        "dec_strong" => {
            let a = arg(tok, 1);
            let p = Rc::into_raw(st.h[a].take().unwrap());
            st.hs[a] = None;
            unsafe { Rc::decrement_strong_count(p) };
        }
        "expect_alive" | "expect_dead" => {
            let o = arg(tok, 1);
            let dead = st.objs[o].destroyed > 0;
            if dead != (tok[0] == "expect_dead") {
                st.violations.push(format!("{} {} failed (destroyed {} times)", tok[0], o, st.objs[o].destroyed));
            }
        }
        "expect_upgrade" => {
            let a = arg(tok, 1);
            let r = st.w[a].as_ref().unwrap().upgrade();
            let want = tok[2] == "some";
            if r.is_some() != want {
                st.violations.push(format!("expect_upgrade {} {} failed", a, tok[2]));
            }
            drop(r);
        }
        other => panic!("unknown op {}", other),
    }
}

fn audit(st: &mut St, k: usize, op: &str, before_len: usize) {
    let newly: Vec<usize> = LOG.with(|l| l.borrow()[before_len..].to_vec());
    for &o in &newly {
        if o < st.objs.len() {
            st.objs[o].destroyed += 1;
            if st.objs[o].destroyed > 1 && !st.objs[o].unwrapped {
                st.violations.push(format!("C02 op#{} `{}`: destructor of object {} ran {} times", k, op, o, st.objs[o].destroyed));
            }
        }
    }
    INNER_OBS.with(|o| {
        for s in o.borrow_mut().drain(..) {
            st.violations.push(format!("op#{} `{}`: {}", k, op, s));
        }
    });
    let reach = reachable(st);
    for (o, so) in st.objs.iter().enumerate() {
        if reach[o] && so.destroyed > 0 && !so.unwrapped {
            st.violations.push(format!("C01 op#{} `{}`: object {} is reachable from a held handle but its destructor has run", k, op, o));
        }
    }
    // C06 / deref intact: only through handles the program holds to objects not destroyed.
    for i in 0..st.h.len() {
        if let (Some(rc), Some(o)) = (st.h[i].as_ref(), st.hs[i]) {
            if st.objs[o].destroyed > 0 {
                continue;
            }
            if rc.canary.get() != ALIVE {
                st.violations.push(format!("C01 op#{} `{}`: handle {} to object {} does not see the intact value", k, op, i, o));
            }
            let (sc, wc) = (Rc::strong_count(rc), Rc::weak_count(rc));
            let (es, ew) = (strong_handles_to(st, o), weak_handles_to(st, o));
            if sc != es || wc != ew {
                st.violations.push(format!("C06 op#{} `{}`: object {} reports strong={} weak={} but {} strong and {} weak handles exist", k, op, o, sc, wc, es, ew));
            }
        }
    }
    for i in 0..st.w.len() {
        if let (Some(wk), Some(o)) = (st.w[i].as_ref(), st.ws[i]) {
            if st.objs[o].destroyed > 0 {
                if wk.strong_count() != 0 || wk.weak_count() != 0 {
                    st.violations.push(format!("C05 op#{} `{}`: weak {} to destroyed object {} reports strong={} weak={}", k, op, i, o, wk.strong_count(), wk.weak_count()));
                }
            }
        }
    }
    println!(
        "op#{:<3} {:<16} destroyed_now={:?} reachable={:?}",
        k,
        op,
        newly,
        reach.iter().enumerate().filter(|(_, &r)| r).map(|(i, _)| i).collect::<Vec<_>>()
    );
}

fn main() {
    let args: Vec<String> = std::env::args().collect();
    let text = if args.len() > 2 && args[1] == "-e" {
        args[2].clone()
    } else if args.len() > 1 {
        std::fs::read_to_string(&args[1]).expect("cannot read history file")
    } else {
        eprintln!("usage: cactusref-replay <history-file> | -e '<ops>'");
        std::process::exit(2);
    };
    let mut ops: Vec<String> = Vec::new();
    for line in text.lines() {
        let line = line.split('#').next().unwrap();
        for op in line.split(';') {
            let op = op.trim();
            if !op.is_empty() {
                ops.push(op.to_string());
            }
        }
    }
    let mut st = St { h: vec![], hs: vec![], w: vec![], ws: vec![], objs: vec![], kept: vec![], violations: vec![] };
    let mut panicked = false;
    for (k, op) in ops.iter().enumerate() {
        let tok: Vec<&str> = op.split_whitespace().collect();
        let before = LOG.with(|l| l.borrow().len());
        let r = catch_unwind(AssertUnwindSafe(|| step(&mut st, &tok)));
        if let Err(e) = r {
            let msg = e.downcast_ref::<String>().cloned().or_else(|| e.downcast_ref::<&str>().map(|s| s.to_string())).unwrap_or_default();
            st.violations.push(format!("PANIC op#{} `{}`: {}", k, op, msg));
            panicked = true;
        }
        audit(&mut st, k, op, before);
        if panicked {
            break;
        }
    }
    let alive: Vec<usize> = st.objs.iter().enumerate().filter(|(_, o)| o.destroyed == 0 && !o.unwrapped).map(|(i, _)| i).collect();
    let reach = reachable(&st);
    let unreachable_alive: Vec<usize> = alive.iter().copied().filter(|&o| !reach[o]).collect();
    println!("END alive={:?} unreachable_but_alive={:?}", alive, unreachable_alive);
    for v in &st.violations {
        println!("OBSERVED {}", v);
    }
    let bad = !st.violations.is_empty();
    println!("RESULT {}", if bad { "violation" } else { "ok" });
    // After a panic or violation the heap may be inconsistent: do not run any more drops.
    if bad {
        std::mem::forget(st);
        std::process::exit(1);
    }
    std::mem::forget(st);
}

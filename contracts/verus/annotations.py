# Contract text for the Verus pipeline (V), keyed by function name, loop ordinal and line anchors.
# Spliced mechanically by lib/extract.py into the functions cut from /repo/src/{link,cycle}.rs on every run.
# Nothing in this file is executable Rust: requires/ensures/invariant/decreases clauses, `proof { }` blocks,
# `let ghost` bindings and closure specifications only (all erased by Verus).

LINK = {
 "Links::__spec_items": r"""    pub closed spec fn view(&self) -> Map<Link, usize> { self.registry@ }
""",
 "Links::new": {"ret": "r", "spec": r"""    ensures r@ == Map::<Link, usize>::empty(),
"""},
 "Links::insert": {"params": ["other"], "spec": r"""    requires cnt(old(self)@, other) < usize::MAX,
    ensures final(self)@ == old(self)@.insert(other, (cnt(old(self)@, other) + 1) as usize),
""", "body_start": "    proof { axiom_key_models(); }"},
 "Links::remove": {"params": ["other", "strong"], "spec": r"""    ensures
        cnt(old(self)@, other) > strong ==> final(self)@ == old(self)@.insert(other, (cnt(old(self)@, other) - strong) as usize),
        cnt(old(self)@, other) <= strong ==> final(self)@ == old(self)@.remove(other),
""", "body_start": "    proof { axiom_key_models(); }"},
 "Links::clear": {"spec": r"""    ensures final(self)@ == Map::<Link, usize>::empty(),
"""},
 "Links::is_empty": {"ret": "r", "spec": r"""    ensures r == (self@.len() == 0), r <==> (forall|k: Link| !self@.contains_key(k)),
""", "body_start": r"""    proof {
        if self@.len() == 0 { self@.dom().lemma_len0_is_empty(); }
        else { assert(self@.dom().len() > 0); if forall|k: Link| !self@.contains_key(k) { assert(self@.dom() =~= Set::<Link>::empty()); } }
    }"""},
 "Links::iter": {"ret": "r", "spec": r"""        ensures
            r.obeys_prophetic_iter_laws(), r.decrease() is Some,
            r.remaining().len() == self@.len(),
            r.remaining().no_duplicates(),
            forall|i: int| 0 <= i < r.remaining().len() ==> self@.contains_key(*(#[trigger] r.remaining()[i]).0) && self@[*r.remaining()[i].0] == *r.remaining()[i].1,
            forall|k: Link| self@.contains_key(k) ==> exists|i: int| 0 <= i < r.remaining().len() && *(#[trigger] r.remaining()[i]).0 == k,
""", "body_start": "    proof { axiom_key_models(); }"},
 "Link::forward": {"params": ["ptr"], "ret": "r", "spec": "    ensures r == fl(ptr),\n"},
 "Link::backward": {"params": ["ptr"], "ret": "r", "spec": "    ensures r == bl(ptr),\n"},
 "Link::loopback": {"params": ["ptr"], "ret": "r", "spec": "    ensures r == ll(ptr),\n"},
 "Link::kind": {"ret": "r", "spec": "    ensures r == self.kind,\n"},
 "Link::as_forward": {"ret": "r", "spec": "    ensures r == fl(self.ptr),\n"},
 "PartialEq::__spec_impl": r"""impl vstd::std_specs::cmp::PartialEqSpecImpl for Link {
    open spec fn obeys_eq_spec() -> bool { true }
    open spec fn eq_spec(&self, other: &Self) -> bool { self.kind == other.kind && self.ptr == other.ptr }
}""",
}

CYCLE = {
 "__prelude": "pub struct RcH { pub ptr: Ptr }",
 "cycle_refs": {
  "ret": "r",
  "params": ["this"],
  "locals": [("cycle_owned_refs", r"let mut (\w+) = HashMap::default\(\);"), ("discovered", r"let mut (\w+) = vec!\["), ("visited", r"let mut (\w+) = HashSet::default\(\);"),
             ("node", r"while let Some\((\w+)\) = "), ("links", r"let (\w+) = unsafe \{"), ("link", r"for \(&(\w+), &\w+\) in "), ("strong", r"for \(&\w+, &(\w+)\) in "),
             ("count", r"\.and_modify\(\|(\w+)\|")],
  "sig_rewrites": [(r"\(this: Link\)", "(this: Link, heap: &Heap)")],
  "spec": r"""    requires
        this.kind == Kind::Forward, heap.has(this.ptr), heap_closed(heap), sums_fit(heap),
    ensures
        exists|order: Seq<Ptr>| trace_result(heap, this.ptr, r@, order),
""",
  "body_start": r"""    proof { axiom_key_models(); lemma_reach_refl(heap, this.ptr); }
""",
  "rewrites": [
   ("X4.unsafe_block", r"unsafe \{ (.*?) \}", r"\1", 1),
   ("X4.as_ref", r"(\w+)\.as_ref\(\)", r"heap.at(&\1)", 1),
   ("X4.strong_read_link", r"\b(node|link|this)\.strong\(\)", r"heap.at(&\1).strong()", None),
   ("X5.for_pattern", r"for \(&(\w+), &(\w+)\) in (.+?) \{", r"for kv in it: \3 {\n            let \1 = *kv.0; let \2 = *kv.1;", 1),
   ("X5.closure_mut_param", r"\.and_modify\(\|(\w+)\| (.+?)\)$", r".and_modify(|\1: &mut usize|\n" + r"""                            requires *old(count) + strong <= usize::MAX,
                            ensures *final(count) == *old(count) + strong,
""" + r"                            { \2 })", 1),
   ("X7.empty_arm", r"Kind::Loopback => \{\}", "Kind::Loopback => {\n                    proof { done = done.insert(link); }\n                }", 1),
  ],
  "loops": {
   1: {"header_must_match": r"while let Some\(node\) = discovered\.pop\(\)", "spec": r"""        invariant
            obeys_key_model::<Link>(), obeys_key_model::<Ptr>(),
            this.kind == Kind::Forward, heap.has(this.ptr), heap_closed(heap), sums_fit(heap),
            forall|p: Ptr| rem.contains(p) <==> heap.has(p) && !order.contains(p),
            forall|i: int| 0 <= i < discovered@.len() ==> (#[trigger] discovered@[i]).kind == Kind::Forward && heap.has(discovered@[i].ptr) && reach(heap, this.ptr, discovered@[i].ptr),
            order.no_duplicates(),
            forall|i: int| 0 <= i < order.len() ==> heap.has(#[trigger] order[i]) && reach(heap, this.ptr, order[i]),
            forall|l: Link| visited@.contains(l) <==> (l.kind == Kind::Forward && order.contains(l.ptr)),
            forall|l: Link| cycle_owned_refs@.contains_key(l) ==> l.kind == Kind::Forward,
            forall|t: Ptr| #![trigger cycle_owned_refs@.contains_key(fl(t))] cycle_owned_refs@.contains_key(fl(t)) <==> touched(heap, order, t),
            forall|t: Ptr| #![trigger cnt(cycle_owned_refs@, fl(t))] cnt(cycle_owned_refs@, fl(t)) == sum_col(heap, order, t),
            forall|a: Ptr, t: Ptr| order.contains(a) && #[trigger] edge(heap, a, t) ==> visited@.contains(fl(t)) || discovered@.contains(fl(t)),
            visited@.contains(this) || discovered@.contains(this),
            gd == discovered@,
        ensures discovered@.len() == 0,
        decreases rem.len(), discovered@.len(),
""", "body_start": r"""        proof {
            assert(gd.len() > 0);
            assert(discovered@ =~= gd.drop_last());
            assert(node == gd.last());
            assert forall|l: Link| gd.contains(l) implies discovered@.contains(l) || l == node by {
                let i = choose|i: int| 0 <= i < gd.len() && gd[i] == l;
                if i < gd.len() - 1 { assert(discovered@[i] == l); }
            }
            assert(node == fl(node.ptr));
        }
""", "after": r"""    proof {
        assert(discovered@.len() == 0);
        assert(visited@.contains(this));
        assert(this == fl(this.ptr));
        assert(order.contains(this.ptr));
        assert forall|a: Ptr, t: Ptr| order.contains(a) && edge(heap, a, t) implies order.contains(t) by {
            assert(visited@.contains(fl(t)) || discovered@.contains(fl(t)));
        }
        lemma_closed_contains_reach(heap, order, this.ptr);
        assert forall|p: Ptr| order.contains(p) implies reach(heap, this.ptr, p) by {
            let i = choose|i: int| 0 <= i < order.len() && order[i] == p;
        }
        assert(trace_result(heap, this.ptr, cycle_owned_refs@, order));
    }
"""},
   2: {"header_must_match": r"for kv in it: links\.iter\(\)", "spec": r"""            invariant
                obeys_key_model::<Link>(), obeys_key_model::<Ptr>(),
                heap.has(this.ptr), heap_closed(heap), sums_fit(heap),
                heap.has(node.ptr), tb == heap.table(node.ptr), links@ == tb, node == fl(node.ptr),
                reach(heap, this.ptr, node.ptr),
                order == order0.push(node.ptr), order.no_duplicates(),
                forall|i: int| 0 <= i < order.len() ==> heap.has(#[trigger] order[i]),
                // the iterator enumerates the table exactly once
                it.seq().no_duplicates(),
                forall|i: int| 0 <= i < it.seq().len() ==> tb.contains_key(*(#[trigger] it.seq()[i]).0) && tb[*it.seq()[i].0] == *it.seq()[i].1,
                forall|i: int, j: int| 0 <= i < j < it.seq().len() ==> *(#[trigger] it.seq()[i]).0 != *(#[trigger] it.seq()[j]).0,
                // `done` is the set of keys yielded so far
                forall|k: int| 0 <= k < it.index@ ==> done.contains(*(#[trigger] it.seq()[k]).0),
                forall|l: Link| done.contains(l) ==> exists|k: int| 0 <= k < it.index@ && *(#[trigger] it.seq()[k]).0 == l,
                forall|l: Link| tb.contains_key(l) && !done.contains(l) ==> exists|k: int| it.index@ <= k < it.seq().len() && *(#[trigger] it.seq()[k]).0 == l,
                forall|l: Link| done.contains(l) ==> tb.contains_key(l),
                // work-list
                discovered@.len() >= d0.len(),
                forall|j: int| 0 <= j < d0.len() ==> discovered@[j] == d0[j],
                forall|i: int| 0 <= i < discovered@.len() ==> (#[trigger] discovered@[i]).kind == Kind::Forward && heap.has(discovered@[i].ptr) && reach(heap, this.ptr, discovered@[i].ptr),
                forall|l: Link| done.contains(l) && l.kind == Kind::Forward ==> discovered@.contains(l),
                // result map
                forall|l: Link| cycle_owned_refs@.contains_key(l) ==> l.kind == Kind::Forward,
                forall|t: Ptr| #![trigger cycle_owned_refs@.contains_key(fl(t))] cycle_owned_refs@.contains_key(fl(t)) <==> (m0.contains_key(fl(t)) || done.contains(fl(t)) || done.contains(bl(t))),
                forall|t: Ptr| #![trigger cnt(cycle_owned_refs@, fl(t))] cnt(cycle_owned_refs@, fl(t)) == cnt(m0, fl(t)) + (if done.contains(fl(t)) { tb[fl(t)] as nat } else { 0 }),
                forall|t: Ptr| #![trigger cnt(m0, fl(t))] cnt(m0, fl(t)) == sum_col(heap, order0, t),
""", "after": r"""        proof {
            assert forall|l: Link| tb.contains_key(l) implies done.contains(l) by {}
            assert forall|t: Ptr| #![trigger cycle_owned_refs@.contains_key(fl(t))] cycle_owned_refs@.contains_key(fl(t)) <==> touched(heap, order, t) by {
                lemma_touched_push(heap, order0, node.ptr, t);
            }
            assert forall|t: Ptr| #![trigger cnt(cycle_owned_refs@, fl(t))] cnt(cycle_owned_refs@, fl(t)) == sum_col(heap, order, t) by {
                lemma_sum_col_push(heap, order0, node.ptr, t);
            }
            assert forall|a: Ptr, t: Ptr| order.contains(a) && #[trigger] edge(heap, a, t) implies visited@.contains(fl(t)) || discovered@.contains(fl(t)) by {
                if order0.contains(a) {
                    // was in visited or in the work-list before the pop
                    if gd.contains(fl(t)) && fl(t) != node {
                        assert(d0.contains(fl(t)));
                        let j = choose|j: int| 0 <= j < d0.len() && d0[j] == fl(t);
                        assert(discovered@[j] == fl(t));
                    }
                } else {
                    let i = choose|i: int| 0 <= i < order.len() && order[i] == a;
                    assert(a == node.ptr);
                    assert(done.contains(fl(t)));
                }
            }
            assert(visited@.contains(this) || discovered@.contains(this)) by {
                if gd.contains(this) && this != node {
                    let j = choose|j: int| 0 <= j < d0.len() && d0[j] == this;
                    assert(discovered@[j] == this);
                }
            }
            assert forall|l: Link| visited@.contains(l) <==> (l.kind == Kind::Forward && order.contains(l.ptr)) by {
                if l.kind == Kind::Forward && order.contains(l.ptr) {
                    let i = choose|i: int| 0 <= i < order.len() && order[i] == l.ptr;
                    if i < order0.len() { assert(order0[i] == l.ptr); assert(order0.contains(l.ptr)); } else { assert(l == node); }
                }
                if visited@.contains(l) && l != node {
                    let i = choose|i: int| 0 <= i < order0.len() && order0[i] == l.ptr;
                    assert(order[i] == l.ptr);
                }
                if l == node { assert(order[order0.len() as int] == node.ptr); }
            }
            assert forall|p: Ptr| rem.contains(p) <==> heap.has(p) && !order.contains(p) by {
                if order.contains(p) {
                    let i = choose|i: int| 0 <= i < order.len() && order[i] == p;
                    if i < order0.len() { assert(order0[i] == p); assert(order0.contains(p)); }
                }
                if order0.contains(p) {
                    let i = choose|i: int| 0 <= i < order0.len() && order0[i] == p;
                    assert(order[i] == p);
                }
                assert(order[order0.len() as int] == node.ptr);
            }
            assert forall|i: int| 0 <= i < order.len() implies heap.has(#[trigger] order[i]) && reach(heap, this.ptr, order[i]) by {
                if i < order0.len() { assert(order[i] == order0[i]); }
            }
            gd = discovered@;
        }
"""},
  },
  "inserts": [
   {"at": r"let mut visited = HashSet::default\(\);", "pos": "after", "text": r"""    let ghost mut order: Seq<Ptr> = Seq::empty();
    let ghost mut rem: Set<Ptr> = heap.objs@.dom();
    let ghost mut gd: Seq<Link> = seq![this];
    proof {
        assert(discovered@ =~= seq![this]);
        assert(discovered@[0] == this);
        assert(discovered@.contains(this));
        assert forall|t: Ptr| !touched(heap, order, t) by {}
        assert forall|t: Ptr| sum_col(heap, order, t) == 0 by {}
    }
"""},
   {"at": r"^\s*continue;", "pos": "before", "text": "            proof { gd = discovered@; }"},
   {"at": r"^\s*visited\.insert\(node\);", "pos": "after", "indent": 8, "text": r"""        let ghost order0 = order;
        let ghost m0 = cycle_owned_refs@;
        let ghost d0 = discovered@;
        let ghost tb = heap.table(node.ptr);
        let ghost mut done: Set<Link> = Set::empty();
        proof {
            assert(!order.contains(node.ptr));
            order = order.push(node.ptr);
            assert(rem.contains(node.ptr));
            rem = rem.remove(node.ptr);
            assert(order0.push(node.ptr).no_duplicates()) by {
                assert forall|i: int, j: int| 0 <= i < j < order.len() implies order[i] != order[j] by {
                    if j == order0.len() { assert(order0[i] == order[i]); assert(order0.contains(order[i])); }
                    else { assert(order0[i] == order[i] && order0[j] == order[j]); }
                }
            }
        }
"""},
   {"at": r"let link = \*kv\.0; let strong = \*kv\.1;", "pos": "after", "text": r"""            proof {
                assert(tb.contains_key(link) && tb[link] == strong);
                assert(heap.has(link.ptr));
                assert(!done.contains(link)) by {
                    if done.contains(link) {
                        let k = choose|k: int| 0 <= k < it.index@ && *(#[trigger] it.seq()[k]).0 == link;
                        assert(*it.seq()[k].0 != *it.seq()[it.index@ as int].0);
                    }
                }
            }
"""},
   {"at": r"^\s*cycle_owned_refs$", "pos": "before", "text": r"""                    proof {
                        assert(link == fl(link.ptr));
                        lemma_sum_col_push(heap, order0, node.ptr, link.ptr);
                        assert(sum_col(heap, order, link.ptr) <= usize::MAX);
                        assert(cnt(cycle_owned_refs@, fl(link.ptr)) + strong <= usize::MAX);
                        assert(edge(heap, node.ptr, link.ptr));
                        lemma_reach_step(heap, this.ptr, node.ptr, link.ptr);
                    }
                    let ghost mprev = cycle_owned_refs@;
"""},
   {"at": r"^\s*discovered\.push\(link\);", "pos": "before", "text": r"""                    let ghost dprev = discovered@;
"""},
   {"at": r"^\s*discovered\.push\(link\);", "pos": "after", "text": r"""                    proof {
                        assert(cycle_owned_refs@ =~= mprev.insert(link, (cnt(mprev, link) + strong) as usize));
                        assert forall|t: Ptr| #![trigger cnt(cycle_owned_refs@, fl(t))] cnt(cycle_owned_refs@, fl(t)) == cnt(m0, fl(t)) + (if done.insert(link).contains(fl(t)) { tb[fl(t)] as nat } else { 0 }) by {
                            if fl(t) == link { assert(t == link.ptr); } else { assert(cnt(cycle_owned_refs@, fl(t)) == cnt(mprev, fl(t))); }
                        }
                        assert forall|l: Link| done.contains(l) && l.kind == Kind::Forward implies discovered@.contains(l) by {
                            let j = choose|j: int| 0 <= j < dprev.len() && dprev[j] == l;
                            assert(discovered@[j] == l);
                        }
                        assert(discovered@[dprev.len() as int] == link);
                        done = done.insert(link);
                    }
"""},
   {"at": r"cycle_owned_refs\.entry\(.*\)\.or_default\(\);", "pos": "before", "text": r"""                    proof { assert(link == bl(link.ptr)); }
                    let ghost mprev = cycle_owned_refs@;
"""},
   {"at": r"cycle_owned_refs\.entry\(.*\)\.or_default\(\);", "pos": "after", "text": r"""                    proof {
                        assert(cycle_owned_refs@ =~= (if mprev.contains_key(fl(link.ptr)) { mprev } else { mprev.insert(fl(link.ptr), 0usize) }));
                        assert forall|t: Ptr| #![trigger cnt(cycle_owned_refs@, fl(t))] cnt(cycle_owned_refs@, fl(t)) == cnt(mprev, fl(t)) by {}
                        done = done.insert(link);
                    }
"""},
  ],
 },
 "orphaned_cycle": {
  "ret": "r",
  "params": ["this"],
  "locals": [("cycle", r"let (\w+) = cycle_refs\("), ("has_external_owners", r"let (\w+) = \w+\s*\n\s*\.iter\(\)"), ("item", r"\.any\(\|\((\w+), &\w+\)\|"), ("cycle_owned_refs", r"\.any\(\|\(\w+, &(\w+)\)\|")],
  "sig_rewrites": [(r"\(this: &Self\)", "(this: &RcH, heap: &Heap)")],
  "spec": r"""    requires heap.has(this.ptr), heap_closed(heap), sums_fit(heap),
    ensures
        match r {
            Some(m) => m@.len() > 0 && all_owned(heap, m@) && exists|order: Seq<Ptr>| trace_result(heap, this.ptr, m@, order),
            None => exists|m: Map<Link, usize>, order: Seq<Ptr>| trace_result(heap, this.ptr, m, order) && (m.len() == 0 || !all_owned(heap, m)),
        },
""",
  "rewrites": [
   ("X4.heap_arg", r"cycle_refs\(Link::forward\(this\.ptr\)\)", "cycle_refs(Link::forward(this.ptr), heap)", 1),
   ("X5.let_iter", r"let has_external_owners = cycle\n\s*\.iter\(\)\n\s*\.any\(", "let mut any_it = cycle.iter();\n    let has_external_owners = any_it\n        .any(", 1),
   ("X5.closure_pattern", r"\|\((\w+), &(\w+)\)\| (.+?)\);", r"|kv: (&Link, &usize)| -> (b: bool)\n" + r"""            requires heap.has(kv.0.ptr),
            ensures b == (heap.strong_of(kv.0.ptr) > *kv.1),
""" + r"            { let \1 = kv.0; let \2 = *kv.1; \3 });", 1),
   ("X4.strong_read", r"\bitem\.strong\(\)", "heap.at(item).strong()", 1),
  ],
  "inserts": [
   {"at": r"let mut any_it = cycle\.iter\(\);", "pos": "before", "text": r"""    proof {
        axiom_key_models();
        let order = choose|order: Seq<Ptr>| trace_result(heap, this.ptr, cycle@, order);
        assert forall|l: Link| cycle@.contains_key(l) implies heap.has(l.ptr) by {
            assert(l == fl(l.ptr));
            assert(touched(heap, order, l.ptr));
            let i = choose|i: int| 0 <= i < order.len() && (heap.table(#[trigger] order[i]).contains_key(fl(l.ptr)) || heap.table(order[i]).contains_key(bl(l.ptr)));
            assert(order.contains(order[i]));
            assert(reach(heap, this.ptr, order[i]));
            lemma_reach_has(heap, this.ptr, order[i]);
            assert(fl(l.ptr).ptr == l.ptr && bl(l.ptr).ptr == l.ptr);
        }
    }
"""},
   {"at": r"let mut any_it = cycle\.iter\(\);", "pos": "after", "text": r"""    let ghost rem0 = any_it.remaining();
    proof {
        assert forall|i: int| 0 <= i < rem0.len() implies heap.has((#[trigger] rem0[i]).0.ptr) by {
            assert(cycle@.contains_key(*rem0[i].0));
        }
    }
"""},
   {"at": r"let item = kv\.0; let cycle_owned_refs = \*kv\.1;", "pos": "after", "text": r"""    proof {
        if has_external_owners {
            let i = choose|i: int| 0 <= i < rem0.len() && heap.strong_of((#[trigger] rem0[i]).0.ptr) > *rem0[i].1;
            let l = *rem0[i].0;
            assert(cycle@.contains_key(l) && cycle@[l] == *rem0[i].1);
            assert(!all_owned(heap, cycle@));
        } else {
            assert(forall|i: int| 0 <= i < rem0.len() ==> !(heap.strong_of((#[trigger] rem0[i]).0.ptr) > *rem0[i].1));
            assert forall|l: Link| #![trigger cycle@.contains_key(l)] cycle@.contains_key(l) implies heap.strong_of(l.ptr) <= cycle@[l] by {
                let i = choose|i: int| 0 <= i < rem0.len() && *(#[trigger] rem0[i]).0 == l;
                assert(cycle@[l] == *rem0[i].1);
            }
            assert(all_owned(heap, cycle@));
        }
    }
"""},
  ],
 },
}


# src/adopt.rs: <Rc as Adopt>::{adopt_unchecked, unadopt} over the mutable heap shim (verus/mheap.rs).
# The postconditions are the spec-level transition functions adopt_spec / unadopt_spec of verus/lemmas.rs, so
# that lemma_{adopt,unadopt}_preserves_symmetry apply to what the real text does, for every heap, every
# multiplicity and every aliasing of the two handles (same handle; two handles to one allocation; distinct).
_ADOPT_PRE = r"""    requires
        this.hid == other.hid ==> this.ptr == other.ptr,
        old(heap).wf(), old(heap).has(this.ptr), old(heap).has(other.ptr),
        !old(heap).borrowed(this.ptr), !old(heap).borrowed(other.ptr),
"""
ADOPT = {
 "adopt_unchecked": {
  "params": ["this", "other"],
  "sig_rewrites": [(r"\(this: &Self, other: &Self\)", "(this: &RcH2, other: &RcH2, heap: &mut MHeap)")],
  "spec": _ADOPT_PRE + r"""        old(heap).counts_fit(),
    ensures
        final(heap).wf(), final(heap).out@ == old(heap).out@, final(heap).cnts@ == old(heap).cnts@,
        this.hid == other.hid ==> final(heap).view() == old(heap).view().insert(this.ptr, bump(old(heap).view()[this.ptr], ll(other.ptr))),
        this.hid != other.hid ==> final(heap).view() == adopt_spec(old(heap).view(), this.ptr, other.ptr),
""",
  "inserts": [
   {"at": r"^\s*return;", "pos": "before", "optional": True, "text": r"""        proof { assert(heap.view() =~= old(heap).view().insert(this.ptr, bump(old(heap).view()[this.ptr], ll(other.ptr)))); }"""},
   # order-agnostic hints (a refactor that records the backward link first must stay green): the two keys differ, so
   # neither insertion changes the other key's count
   {"at": r"\.insert\(Link::(forward|backward)\(", "nth": "all", "pos": "before", "text": r"""    proof {
        assert(fl(other.ptr) != bl(this.ptr));
        assert(cnt($RECV@, bl(this.ptr)) == cnt(old(heap).table(other.ptr), bl(this.ptr)) || cnt($RECV@, fl(other.ptr)) == cnt(old(heap).table(this.ptr), fl(other.ptr)));
    }"""},
  ],
  "body_end": r"""    proof {
        lemma_adopt_spec_commutes(old(heap).view(), this.ptr, other.ptr);
        assert(heap.view() =~= adopt_spec(old(heap).view(), this.ptr, other.ptr));
    }""",
 },
 "unadopt": {
  "params": ["this", "other"],
  "sig_rewrites": [(r"\(this: &Self, other: &Self\)", "(this: &RcH2, other: &RcH2, heap: &mut MHeap)")],
  "spec": _ADOPT_PRE + r"""    ensures
        final(heap).wf(), final(heap).out@ == old(heap).out@, final(heap).cnts@ == old(heap).cnts@,
        this.hid == other.hid ==> final(heap).view() == old(heap).view().insert(this.ptr, unbump(old(heap).view()[this.ptr], ll(other.ptr))),
        this.hid != other.hid ==> final(heap).view() == unadopt_spec(old(heap).view(), this.ptr, other.ptr),
""",
  "inserts": [
   {"at": r"^\s*return;", "pos": "before", "optional": True, "text": r"""        proof { assert(heap.view() =~= old(heap).view().insert(this.ptr, unbump(old(heap).view()[this.ptr], ll(other.ptr)))); }"""},
  ],
  "body_end": r"""    proof {
        lemma_adopt_spec_commutes(old(heap).view(), this.ptr, other.ptr);
        assert(fl(other.ptr) != bl(this.ptr));
        assert(heap.view() =~= unadopt_spec(old(heap).view(), this.ptr, other.ptr));
    }""",
 },
}


# src/drop.rs: the unlink prefix of drop_unreachable_with_adoptions (extraction rule X11) over the mutable heap
# shim.  Postcondition: the tables afterwards are exactly unlink_spec(tables before, dying object) — the dying
# object's table empty, every peer without its Forward/Backward records of the dying object and with every other
# record untouched — for every heap size, every multiplicity and every table iteration order, given I2 with
# counts (sym_counts), I4 (tables_closed), "no zero-valued record" (nonzero) and no table borrow outstanding.
DROP = {
 "__prelude": r"""pub open spec fn nonzero(t: Tables) -> bool {
    forall|p: Ptr, l: Link| #![trigger t[p][l]] t.contains_key(p) && t[p].contains_key(l) ==> t[p][l] > 0
}

pub open spec fn tables_closed(t: Tables) -> bool {
    forall|p: Ptr, l: Link| #![trigger t[p].contains_key(l)] t.contains_key(p) && t[p].contains_key(l) ==> t.contains_key(l.ptr)
}

/// what the zero-count teardown's unlinking must leave: the dying object's table empty, every peer without its
/// records of x, every other record of every peer untouched
pub open spec fn unlink_spec(t: Tables, x: Ptr) -> Tables {
    Map::new(t.dom(), |p: Ptr| if p == x { Map::<Link, usize>::empty() } else { t[p].remove(fl(x)).remove(bl(x)) })
}

/// unlink_spec followed by the release of x's (empty) table is purge_spec of verus/lemmas.rs
pub proof fn lemma_unlink_then_drop_is_purge(t: Tables, x: Ptr)
    requires t.contains_key(x),
    ensures unlink_spec(t, x).remove(x) == purge_spec(t, x),
{
    assert(unlink_spec(t, x).remove(x) =~= purge_spec(t, x));
}

/// Loopback records only ever sit in the table of the object they name (adopt_unchecked's same-handle branch)
pub open spec fn loop_self(t: Tables) -> bool {
    forall|p: Ptr, l: Link| #![trigger t[p].contains_key(l)] t.contains_key(p) && t[p].contains_key(l) && l.kind == Kind::Loopback ==> l.ptr == p
}

/// I4 (every record names a present object) and loop_self are inductive over adopt / unadopt / purge
pub proof fn lemma_closed_preserved(t: Tables, a: Ptr, b: Ptr)
    requires tables_closed(t), loop_self(t), t.contains_key(a), t.contains_key(b),
    ensures
        tables_closed(adopt_spec(t, a, b)), loop_self(adopt_spec(t, a, b)),
        tables_closed(unadopt_spec(t, a, b)), loop_self(unadopt_spec(t, a, b)),
        tables_closed(purge_spec(t, a)), loop_self(purge_spec(t, a)),
{
    let t1 = t.insert(a, bump(t[a], fl(b)));
    let t2 = adopt_spec(t, a, b);
    assert forall|p: Ptr, l: Link| #![trigger t1[p].contains_key(l)] t1.contains_key(p) && t1[p].contains_key(l) implies t1.contains_key(l.ptr) && (l.kind == Kind::Loopback ==> l.ptr == p) by {
        if p == a && l == fl(b) { } else { assert(t[p].contains_key(l)); }
    }
    assert forall|p: Ptr, l: Link| #![trigger t2[p].contains_key(l)] t2.contains_key(p) && t2[p].contains_key(l) implies t2.contains_key(l.ptr) && (l.kind == Kind::Loopback ==> l.ptr == p) by {
        if p == b && l == bl(a) { } else { assert(t1[p].contains_key(l)); }
    }
    let u1 = t.insert(a, unbump(t[a], fl(b)));
    let u2 = unadopt_spec(t, a, b);
    assert forall|p: Ptr, l: Link| #![trigger u1[p].contains_key(l)] u1.contains_key(p) && u1[p].contains_key(l) implies u1.contains_key(l.ptr) && (l.kind == Kind::Loopback ==> l.ptr == p) by {
        assert(t[p].contains_key(l));
    }
    assert forall|p: Ptr, l: Link| #![trigger u2[p].contains_key(l)] u2.contains_key(p) && u2[p].contains_key(l) implies u2.contains_key(l.ptr) && (l.kind == Kind::Loopback ==> l.ptr == p) by {
        assert(u1[p].contains_key(l));
    }
    let w = purge_spec(t, a);
    assert forall|p: Ptr, l: Link| #![trigger w[p].contains_key(l)] w.contains_key(p) && w[p].contains_key(l) implies w.contains_key(l.ptr) && (l.kind == Kind::Loopback ==> l.ptr == p) by {
        assert(t[p].contains_key(l));
        assert(l != fl(a) && l != bl(a));
        if l.ptr == a { assert(l.kind == Kind::Loopback); assert(l.ptr == p); }
    }
}

/// "no zero-valued record" is inductive over the three transition functions (it is what makes `cnt == 0`
/// mean "no record"); the count bound is the one Links::insert requires
pub proof fn lemma_nonzero_preserved(t: Tables, a: Ptr, b: Ptr)
    requires nonzero(t), t.contains_key(a), t.contains_key(b),
        cnt(t[a], fl(b)) < usize::MAX, cnt(t[b], bl(a)) < usize::MAX,
    ensures nonzero(adopt_spec(t, a, b)), nonzero(unadopt_spec(t, a, b)), nonzero(unlink_spec(t, a)),
{
    let t1 = t.insert(a, bump(t[a], fl(b)));
    assert(nonzero(t1)) by {
        assert forall|p: Ptr, l: Link| #![trigger t1[p][l]] t1.contains_key(p) && t1[p].contains_key(l) implies t1[p][l] > 0 by {
            if p == a { if l != fl(b) { assert(t[a][l] > 0); } } else { assert(t[p][l] > 0); }
        }
    }
    let t2 = adopt_spec(t, a, b);
    assert(fl(b) != bl(a));
    assert(cnt(t1[b], bl(a)) == cnt(t[b], bl(a)));
    assert forall|p: Ptr, l: Link| #![trigger t2[p][l]] t2.contains_key(p) && t2[p].contains_key(l) implies t2[p][l] > 0 by {
        if p == b { if l != bl(a) { assert(t1[b][l] > 0); } } else { assert(t1[p][l] > 0); }
    }
    let u1 = t.insert(a, unbump(t[a], fl(b)));
    assert(nonzero(u1)) by {
        assert forall|p: Ptr, l: Link| #![trigger u1[p][l]] u1.contains_key(p) && u1[p].contains_key(l) implies u1[p][l] > 0 by {
            if p == a { if l != fl(b) { assert(t[a][l] > 0); } } else { assert(t[p][l] > 0); }
        }
    }
    let u2 = unadopt_spec(t, a, b);
    assert forall|p: Ptr, l: Link| #![trigger u2[p][l]] u2.contains_key(p) && u2[p].contains_key(l) implies u2[p][l] > 0 by {
        if p == b { if l != bl(a) { assert(u1[b][l] > 0); } } else { assert(u1[p][l] > 0); }
    }
    let w = unlink_spec(t, a);
    assert forall|p: Ptr, l: Link| #![trigger w[p][l]] w.contains_key(p) && w[p].contains_key(l) implies w[p][l] > 0 by {
        if p != a { assert(t[p][l] > 0); }
    }
}""",
 "drop_unreachable_with_adoptions": {
  "params": ["this"],
  "locals": [("forward", r"let (\w+) = Link::forward\("), ("backward", r"let (\w+) = Link::backward\("), ("links", r"let (\w+) = \w+\.inner\(\)\.links\(\);"),
             ("item", r"for \((\w+), (?:&\w+|_)\) in "), ("strong", r"for \(\w+, (?:&(\w+)|(_))\) in ")],
  "sig_rewrites": [(r"\(this: &mut Rc<T>\)", "(this: &RcH2, heap: &mut MHeap)")],
  "spec": r"""    requires
        old(heap).wf(), old(heap).has(this.ptr), old(heap).out@ == Set::<Ptr>::empty(),
        sym_counts(old(heap).view()), nonzero(old(heap).view()), tables_closed(old(heap).view()),
    ensures
        final(heap).wf(), final(heap).out@ == Set::<Ptr>::empty(), final(heap).cnts@ == old(heap).cnts@,
        final(heap).view() == unlink_spec(old(heap).view(), this.ptr),
""",
  "body_start": r"""    proof { axiom_key_models(); }
    let ghost v0 = old(heap).view();
    let ghost x = this.ptr;
""",
  "inserts": [
   {"at": r"let links_s1 = heap\.borrow_mut\(&this\.ptr\);", "pos": "after", "text": r"""    let ghost tb = links_s1@;
    let ghost mut done: Set<Link> = Set::empty();
    proof {
        assert(tb == v0[x]);
        assert(heap.view().dom() =~= v0.dom().remove(x));
        assert forall|p: Ptr| heap.view().contains_key(p) implies #[trigger] heap.view()[p] == v0[p] by {}
    }
"""},
   {"at": r"let mut it = links_s1\.iter\(\);", "pos": "after", "text": r"""    let ghost rem0 = it.remaining();
    let ghost mut idx: int = 0;
"""},
   {"at": r"let item = kv\.0; let strong = \*kv\.1;", "pos": "after", "text": r"""        let ghost l = *item;
        let ghost hv = heap.view();
        proof {
            assert(idx < rem0.len());
            assert(kv == rem0[idx]);
            assert(rem0.skip(idx).skip(1) =~= rem0.skip(idx + 1));
            let ghost done0 = done;
            done = done.insert(l);
            idx = idx + 1;
            assert forall|j: Link| done.contains(j) <==> exists|k: int| 0 <= k < idx && *(#[trigger] rem0[k]).0 == j by {
                if done0.contains(j) { let k = choose|k: int| 0 <= k < idx - 1 && *(#[trigger] rem0[k]).0 == j; assert(*rem0[k].0 == j); }
                if j == l { assert(*rem0[idx - 1].0 == j); }
            }
            assert(tb.contains_key(l) && tb[l] == strong);
            assert(v0.contains_key(l.ptr));
        }
"""},
   {"at": r"^\s*continue;", "pos": "before", "optional": True, "text": r"""            proof {
                assert(l.ptr == x);
                assert forall|q: Ptr| heap.view().contains_key(q) implies fl(q) != l && bl(q) != l by { if fl(q) == l || bl(q) == l { assert(q == x); } }
            }
"""},
   {"at": r"let mut \w+ = heap\.borrow_mut\(&item\.ptr\);", "pos": "before", "text": r"""        let ghost p = item.ptr;
        proof { assert(heap.view().contains_key(p)); assert(heap.tabs@.contains_key(p)); }
"""},
  ],
  "loops": {
   1: {"header_must_match": r"while let Some\(kv\) = it\.next\(\)", "spec": r"""        invariant
            obeys_key_model::<Link>(), obeys_key_model::<Ptr>(),
            forward == fl(x), backward == bl(x), x == this.ptr, links_s1@ == tb, tb == v0[x],
            heap.wf(), heap.out@ =~= Set::<Ptr>::empty().insert(x), heap.cnts@ == old(heap).cnts@,
            v0.contains_key(x), sym_counts(v0), nonzero(v0), tables_closed(v0),
            heap.view().dom() == v0.dom().remove(x),
            // the iterator enumerates the dying object's table exactly once, in an arbitrary order
            it.obeys_prophetic_iter_laws(), 0 <= idx <= rem0.len(), it.remaining() == rem0.skip(idx), rem0.len() == tb.len(),
            rem0.no_duplicates(),
            forall|i: int| 0 <= i < rem0.len() ==> tb.contains_key(*(#[trigger] rem0[i]).0) && tb[*rem0[i].0] == *rem0[i].1,
            forall|l: Link| tb.contains_key(l) ==> exists|i: int| 0 <= i < rem0.len() && *(#[trigger] rem0[i]).0 == l,
            forall|l: Link| done.contains(l) <==> exists|k: int| 0 <= k < idx && *(#[trigger] rem0[k]).0 == l,
            // peers: records that do not name x are untouched; records naming x only shrink, and are gone once the
            // matching record of x's table has been processed
            forall|p: Ptr, l: Link| #![trigger heap.view()[p].contains_key(l)] heap.view().contains_key(p) && l != fl(x) && l != bl(x) ==> (heap.view()[p].contains_key(l) <==> v0[p].contains_key(l)),
            forall|p: Ptr, l: Link| #![trigger heap.view()[p][l]] heap.view().contains_key(p) && l != fl(x) && l != bl(x) && v0[p].contains_key(l) ==> heap.view()[p][l] == v0[p][l],
            forall|p: Ptr, l: Link| #![trigger heap.view()[p][l]] heap.view().contains_key(p) && heap.view()[p].contains_key(l) ==> heap.view()[p][l] > 0,
            forall|p: Ptr| #![trigger cnt(heap.view()[p], bl(x))] heap.view().contains_key(p) ==> cnt(heap.view()[p], bl(x)) <= cnt(v0[p], bl(x)) && (done.contains(fl(p)) ==> cnt(heap.view()[p], bl(x)) == 0),
            forall|p: Ptr| #![trigger cnt(heap.view()[p], fl(x))] heap.view().contains_key(p) ==> cnt(heap.view()[p], fl(x)) <= cnt(v0[p], fl(x)) && (done.contains(bl(p)) ==> cnt(heap.view()[p], fl(x)) == 0),
        ensures idx == rem0.len(),
        decreases tb.len() - idx,
""", "body_end": r"""        proof {
            assert(l.ptr == p);
            assert(cnt(v0[x], fl(p)) == cnt(v0[p], bl(x)));
            assert(cnt(v0[p], fl(x)) == cnt(v0[x], bl(p)));
            assert(heap.view().dom() =~= v0.dom().remove(x));
            assert forall|q: Ptr| heap.view().contains_key(q) && q != p implies #[trigger] heap.view()[q] == hv[q] by {}
            assert forall|q: Ptr| #![trigger cnt(heap.view()[q], bl(x))] heap.view().contains_key(q) implies cnt(heap.view()[q], bl(x)) <= cnt(v0[q], bl(x)) && (done.contains(fl(q)) ==> cnt(heap.view()[q], bl(x)) == 0) by {
                if q == p {
                    assert(cnt(hv[p], bl(x)) <= cnt(v0[p], bl(x)));
                    if l == fl(p) { assert(strong as nat == cnt(v0[p], bl(x))); }
                } else {
                    assert(heap.view()[q] == hv[q]);
                    assert(cnt(hv[q], bl(x)) <= cnt(v0[q], bl(x)));
                    if fl(q) == l { assert(q == p); }
                }
            }
            assert forall|q: Ptr| #![trigger cnt(heap.view()[q], fl(x))] heap.view().contains_key(q) implies cnt(heap.view()[q], fl(x)) <= cnt(v0[q], fl(x)) && (done.contains(bl(q)) ==> cnt(heap.view()[q], fl(x)) == 0) by {
                if q == p {
                    assert(cnt(hv[p], fl(x)) <= cnt(v0[p], fl(x)));
                    if l == bl(p) { assert(strong as nat == cnt(v0[p], fl(x))); }
                } else {
                    assert(heap.view()[q] == hv[q]);
                    assert(cnt(hv[q], fl(x)) <= cnt(v0[q], fl(x)));
                    if bl(q) == l { assert(q == p); }
                }
            }
        }
""", "after": r"""    proof { assert forall|l: Link| tb.contains_key(l) implies done.contains(l) by {} }
    let ghost hvf = heap.view();
"""},
  },
  "body_end": r"""    proof {
        let u = unlink_spec(v0, x);
        assert(heap.view().dom() =~= u.dom());
        assert forall|p: Ptr| u.contains_key(p) implies #[trigger] heap.view()[p] =~= u[p] by {
            if p != x {
                assert(cnt(v0[x], fl(p)) == cnt(v0[p], bl(x)));
                assert(cnt(v0[p], fl(x)) == cnt(v0[x], bl(p)));
                assert(hvf.contains_key(p) && hvf[p] == heap.view()[p]);
                assert(cnt(hvf[p], bl(x)) == 0) by { if cnt(v0[x], fl(p)) > 0 { assert(tb.contains_key(fl(p))); assert(done.contains(fl(p))); } }
                assert(cnt(hvf[p], fl(x)) == 0) by { if cnt(v0[x], bl(p)) > 0 { assert(tb.contains_key(bl(p))); assert(done.contains(bl(p))); } }
                assert(!hvf[p].contains_key(bl(x))) by { if hvf[p].contains_key(bl(x)) { assert(hvf[p][bl(x)] > 0); } }
                assert(!hvf[p].contains_key(fl(x))) by { if hvf[p].contains_key(fl(x)) { assert(hvf[p][fl(x)] > 0); } }
                assert forall|k: Link| k != fl(x) && k != bl(x) implies (hvf[p].contains_key(k) <==> v0[p].contains_key(k)) && (v0[p].contains_key(k) ==> hvf[p][k] == v0[p][k]) by {}
            }
        }
        assert(heap.view() =~= u);
        assert(heap.out@ =~= Set::<Ptr>::empty());
    }
""",
 },
}

# rule application counts on the pinned tree; a different count is a lost anchor (exit 2)
EXPECTED_COUNTS = {}

// ---- lemmas used by the proof of the reachability trace (verus/lemmas_trace.rs)
verus! {

pub proof fn lemma_reach_refl(h: &Heap, x: Ptr)
    ensures reach(h, x, x),
{
    let s = seq![x];
    assert(is_path(h, s));
    assert(s[0] == x && s.last() == x);
}

pub proof fn lemma_reach_step(h: &Heap, x: Ptr, a: Ptr, b: Ptr)
    requires reach(h, x, a), edge(h, a, b),
    ensures reach(h, x, b),
{
    let s = choose|s: Seq<Ptr>| is_path(h, s) && s[0] == x && s.last() == a;
    let s2 = s.push(b);
    assert forall|i: int| 0 <= i < s2.len() - 1 implies edge(h, #[trigger] s2[i], s2[i + 1]) by {
        if i < s.len() - 1 {
            assert(s2[i] == s[i] && s2[i + 1] == s[i + 1]);
        } else {
            assert(s2[i] == a && s2[i + 1] == b);
        }
    }
    assert(is_path(h, s2));
    assert(s2[0] == x && s2.last() == b);
}

pub proof fn lemma_sum_col_push(h: &Heap, s: Seq<Ptr>, p: Ptr, t: Ptr)
    ensures sum_col(h, s.push(p), t) == sum_col(h, s, t) + cnt(h.table(p), fl(t)),
{
    let s2 = s.push(p);
    assert(s2.drop_last() =~= s);
    assert(s2.last() == p);
}

pub proof fn lemma_touched_push(h: &Heap, s: Seq<Ptr>, p: Ptr, t: Ptr)
    ensures touched(h, s.push(p), t) <==> (touched(h, s, t) || h.table(p).contains_key(fl(t)) || h.table(p).contains_key(bl(t))),
{
    let s2 = s.push(p);
    if touched(h, s, t) {
        let i = choose|i: int| 0 <= i < s.len() && (h.table(#[trigger] s[i]).contains_key(fl(t)) || h.table(s[i]).contains_key(bl(t)));
        assert(s2[i] == s[i]);
    }
    if h.table(p).contains_key(fl(t)) || h.table(p).contains_key(bl(t)) {
        assert(s2[s.len() as int] == p);
    }
    if touched(h, s2, t) {
        let i = choose|i: int| 0 <= i < s2.len() && (h.table(#[trigger] s2[i]).contains_key(fl(t)) || h.table(s2[i]).contains_key(bl(t)));
        if i < s.len() {
            assert(s2[i] == s[i]);
        } else {
            assert(s2[i] == p);
        }
    }
}

pub proof fn lemma_reach_has(h: &Heap, x: Ptr, p: Ptr)
    requires h.has(x), heap_closed(h), reach(h, x, p),
    ensures h.has(p),
{
    let s = choose|s: Seq<Ptr>| is_path(h, s) && s[0] == x && s.last() == p;
    if s.len() >= 2 {
        let i = s.len() - 2;
        assert(edge(h, s[i], s[i + 1]));
        assert(h.table(s[i]).contains_key(fl(p)));
        assert(fl(p).ptr == p);
    }
}

/// a set of objects that contains x and is closed under recorded adoptions contains everything reachable from x
pub proof fn lemma_closed_contains_path(h: &Heap, order: Seq<Ptr>, s: Seq<Ptr>, k: int)
    requires
        is_path(h, s), order.contains(s[0]), 0 <= k < s.len(),
        forall|a: Ptr, t: Ptr| order.contains(a) && edge(h, a, t) ==> order.contains(t),
    ensures order.contains(s[k]),
    decreases k,
{
    if k > 0 {
        lemma_closed_contains_path(h, order, s, k - 1);
        assert(edge(h, s[k - 1], s[k - 1 + 1]));
    }
}

pub proof fn lemma_closed_contains_reach(h: &Heap, order: Seq<Ptr>, x: Ptr)
    requires
        order.contains(x),
        forall|a: Ptr, t: Ptr| order.contains(a) && edge(h, a, t) ==> order.contains(t),
    ensures forall|p: Ptr| reach(h, x, p) ==> order.contains(p),
{
    assert forall|p: Ptr| reach(h, x, p) implies order.contains(p) by {
        let s = choose|s: Seq<Ptr>| is_path(h, s) && s[0] == x && s.last() == p;
        lemma_closed_contains_path(h, order, s, s.len() - 1);
    }
}

} // verus!

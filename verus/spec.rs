// ---- specification vocabulary (verus/spec.rs), shared by the code contracts (V) and the lemmas (L)
verus! {

pub open spec fn cnt(m: Map<Link, usize>, k: Link) -> nat {
    if m.contains_key(k) { m[k] as nat } else { 0 }
}

pub open spec fn fl(p: Ptr) -> Link { Link { ptr: p, kind: Kind::Forward } }
pub open spec fn bl(p: Ptr) -> Link { Link { ptr: p, kind: Kind::Backward } }
pub open spec fn ll(p: Ptr) -> Link { Link { ptr: p, kind: Kind::Loopback } }

/// I4: every key of a present object's table names a present object.
pub open spec fn heap_closed(h: &Heap) -> bool {
    forall|p: Ptr, l: Link| #![trigger h.table(p).contains_key(l)]
        h.has(p) && h.table(p).contains_key(l) ==> h.has(l.ptr)
}

/// a recorded adoption a -> b
pub open spec fn edge(h: &Heap, a: Ptr, b: Ptr) -> bool {
    h.has(a) && h.table(a).contains_key(fl(b))
}

pub open spec fn is_path(h: &Heap, s: Seq<Ptr>) -> bool {
    s.len() >= 1 && forall|i: int| 0 <= i < s.len() - 1 ==> edge(h, #[trigger] s[i], s[i + 1])
}

/// p is reachable from x along recorded adoptions (x itself included)
pub open spec fn reach(h: &Heap, x: Ptr, p: Ptr) -> bool {
    exists|s: Seq<Ptr>| is_path(h, s) && s[0] == x && s.last() == p
}

/// number of adoptions of t recorded by the objects of s
pub open spec fn sum_col(h: &Heap, s: Seq<Ptr>, t: Ptr) -> nat
    decreases s.len(),
{
    if s.len() == 0 { 0 } else { sum_col(h, s.drop_last(), t) + cnt(h.table(s.last()), fl(t)) }
}

/// t is adopted by, or is an adopter of, one of the objects of s
pub open spec fn touched(h: &Heap, s: Seq<Ptr>, t: Ptr) -> bool {
    exists|i: int| 0 <= i < s.len() && (h.table(#[trigger] s[i]).contains_key(fl(t)) || h.table(s[i]).contains_key(bl(t)))
}

/// adoption counts never overflow a usize when summed over distinct objects (implied by the handle ledger:
/// recorded adoptions <= strong handles <= usize::MAX)
pub open spec fn sums_fit(h: &Heap) -> bool {
    forall|s: Seq<Ptr>, t: Ptr| #![trigger sum_col(h, s, t)]
        s.no_duplicates() && (forall|i: int| 0 <= i < s.len() ==> h.has(#[trigger] s[i])) ==> sum_col(h, s, t) <= usize::MAX
}

/// U4: what the reachability trace must return, as a function of the heap's view only.
/// `order` enumerates the set of objects reachable from x, each exactly once.
pub open spec fn trace_result(h: &Heap, x: Ptr, m: Map<Link, usize>, order: Seq<Ptr>) -> bool {
    &&& order.no_duplicates()
    &&& forall|p: Ptr| order.contains(p) <==> reach(h, x, p)
    &&& forall|l: Link| m.contains_key(l) ==> l.kind == Kind::Forward
    &&& forall|t: Ptr| #![trigger m.contains_key(fl(t))] m.contains_key(fl(t)) <==> touched(h, order, t)
    &&& forall|t: Ptr| #![trigger cnt(m, fl(t))] cnt(m, fl(t)) == sum_col(h, order, t)
}

/// the orphan test: no traced object has more strong handles than the group explains
pub open spec fn all_owned(h: &Heap, m: Map<Link, usize>) -> bool {
    forall|l: Link| #![trigger m.contains_key(l)] m.contains_key(l) ==> h.strong_of(l.ptr) <= m[l]
}

} // verus!

// ---- property lemmas over the contracts (verus/lemmas.rs): the L pipeline.
// These say nothing about the code by themselves: their hypotheses are the postconditions of the
// contracts on cycle_refs/orphaned_cycle (trace_result, all_owned) and the ghost handle ledger.
verus! {

/// Ghost handle ledger: who holds which strong handle (C06's representation invariant).
pub struct Ledger {
    pub all: Seq<Ptr>,                 // every allocated object, once
    pub roots: Map<Ptr, nat>,          // handles held by the program
    pub held: Map<(Ptr, Ptr), nat>,    // handles to .1 stored in the value of .0
}

pub open spec fn hcnt(l: Ledger, p: Ptr, t: Ptr) -> nat {
    if l.held.contains_key((p, t)) { l.held[(p, t)] } else { 0 }
}

pub open spec fn rcnt(l: Ledger, t: Ptr) -> nat {
    if l.roots.contains_key(t) { l.roots[t] } else { 0 }
}

pub open spec fn sum_held(l: Ledger, s: Seq<Ptr>, t: Ptr) -> nat
    decreases s.len(),
{
    if s.len() == 0 { 0 } else { sum_held(l, s.drop_last(), t) + hcnt(l, s.last(), t) }
}

/// C06 as an invariant: strong(t) = program handles + handles stored in objects
pub open spec fn ledger_ok(h: &Heap, l: Ledger) -> bool {
    &&& l.all.no_duplicates()
    &&& forall|p: Ptr| l.all.contains(p) <==> h.has(p)
    &&& forall|t: Ptr| h.has(t) ==> #[trigger] h.strong_of(t) == rcnt(l, t) + sum_held(l, l.all, t)
}

/// C01's hypothesis: never more adoptions recorded from an owner to a target than handles held
pub open spec fn recorded_le_held(h: &Heap, l: Ledger) -> bool {
    forall|a: Ptr, t: Ptr| h.has(a) ==> cnt(h.table(a), fl(t)) <= #[trigger] hcnt(l, a, t)
}

pub proof fn lemma_sum_held_remove(l: Ledger, s: Seq<Ptr>, i: int, t: Ptr)
    requires 0 <= i < s.len(),
    ensures sum_held(l, s, t) == sum_held(l, s.remove(i), t) + hcnt(l, s[i], t),
    decreases s.len(),
{
    if i == s.len() - 1 {
        assert(s.remove(i) =~= s.drop_last());
    } else {
        lemma_sum_held_remove(l, s.drop_last(), i, t);
        assert(s.remove(i).drop_last() =~= s.drop_last().remove(i));
        assert(s.remove(i).last() == s.last());
        assert(s.drop_last()[i] == s[i]);
    }
}

/// sum over a duplicate-free subsequence-as-set is at most the sum over the whole; if equal, every
/// object outside it contributes nothing
pub proof fn lemma_sum_held_subset(l: Ledger, s1: Seq<Ptr>, s2: Seq<Ptr>, t: Ptr)
    requires
        s1.no_duplicates(), s2.no_duplicates(),
        forall|p: Ptr| s1.contains(p) ==> s2.contains(p),
    ensures
        sum_held(l, s1, t) <= sum_held(l, s2, t),
        sum_held(l, s1, t) == sum_held(l, s2, t) ==> forall|p: Ptr| s2.contains(p) && !s1.contains(p) ==> hcnt(l, p, t) == 0,
    decreases s2.len(),
{
    if s2.len() == 0 {
        if s1.len() > 0 { assert(s1.contains(s1[0])); assert(s2.contains(s1[0])); }
        assert(s1.len() == 0);
    } else {
        let q = s2.last();
        let s2p = s2.drop_last();
        assert(s2p.no_duplicates());
        assert forall|p: Ptr| s2.contains(p) implies s2p.contains(p) || p == q by {
            let j = choose|j: int| 0 <= j < s2.len() && s2[j] == p;
            if j < s2.len() - 1 { assert(s2p[j] == p); }
        }
        assert(!s2p.contains(q)) by {
            if s2p.contains(q) { let j = choose|j: int| 0 <= j < s2p.len() && s2p[j] == q; assert(s2[j] == q); }
        }
        if s1.contains(q) {
            let i = choose|i: int| 0 <= i < s1.len() && s1[i] == q;
            let s1p = s1.remove(i);
            lemma_sum_held_remove(l, s1, i, t);
            assert(s1p.no_duplicates()) by {
                assert forall|a: int, b: int| 0 <= a < b < s1p.len() implies s1p[a] != s1p[b] by {
                    let a2 = if a < i { a } else { a + 1 };
                    let b2 = if b < i { b } else { b + 1 };
                    assert(s1p[a] == s1[a2] && s1p[b] == s1[b2]);
                }
            }
            assert forall|p: Ptr| s1p.contains(p) implies s2p.contains(p) by {
                let a = choose|a: int| 0 <= a < s1p.len() && s1p[a] == p;
                let a2 = if a < i { a } else { a + 1 };
                assert(s1[a2] == p);
                assert(s1.contains(p));
                assert(p != q);
            }
            lemma_sum_held_subset(l, s1p, s2p, t);
            assert forall|p: Ptr| s1.contains(p) implies s1p.contains(p) || p == q by {
                let a = choose|a: int| 0 <= a < s1.len() && s1[a] == p;
                if a < i { assert(s1p[a] == p); } else if a > i { assert(s1p[a - 1] == p); }
            }
        } else {
            assert forall|p: Ptr| s1.contains(p) implies s2p.contains(p) by {}
            lemma_sum_held_subset(l, s1, s2p, t);
        }
    }
}

/// pointwise: recorded adoptions are bounded by held handles
pub proof fn lemma_sum_col_le_held(h: &Heap, l: Ledger, s: Seq<Ptr>, t: Ptr)
    requires recorded_le_held(h, l), forall|i: int| 0 <= i < s.len() ==> h.has(#[trigger] s[i]),
    ensures sum_col(h, s, t) <= sum_held(l, s, t),
    decreases s.len(),
{
    if s.len() > 0 {
        lemma_sum_col_le_held(h, l, s.drop_last(), t);
        assert(h.has(s[s.len() - 1]));
        assert(cnt(h.table(s.last()), fl(t)) <= hcnt(l, s.last(), t));
    }
}

/// every traced key names an allocated object
pub proof fn lemma_key_allocated(h: &Heap, x: Ptr, m: Map<Link, usize>, order: Seq<Ptr>, t: Ptr)
    requires h.has(x), heap_closed(h), trace_result(h, x, m, order), m.contains_key(fl(t)),
    ensures h.has(t),
{
    assert(touched(h, order, t));
    let i = choose|i: int| 0 <= i < order.len() && (h.table(#[trigger] order[i]).contains_key(fl(t)) || h.table(order[i]).contains_key(bl(t)));
    assert(order.contains(order[i]));
    lemma_reach_has(h, x, order[i]);
    assert(fl(t).ptr == t && bl(t).ptr == t);
}

/// L.c01 (core): if the orphan test accepts, every strong handle to every traced object is stored in a
/// traced (reachable-from-x) object: the program holds none, and no object outside the group holds one.
pub proof fn lemma_orphan_handles_inside(h: &Heap, l: Ledger, x: Ptr, m: Map<Link, usize>, order: Seq<Ptr>, t: Ptr)
    requires
        h.has(x), heap_closed(h), ledger_ok(h, l), recorded_le_held(h, l),
        trace_result(h, x, m, order), all_owned(h, m), m.contains_key(fl(t)),
    ensures
        rcnt(l, t) == 0,
        forall|p: Ptr| h.has(p) && !order.contains(p) ==> hcnt(l, p, t) == 0,
        h.strong_of(t) == sum_col(h, order, t),
{
    lemma_key_allocated(h, x, m, order, t);
    assert forall|i: int| 0 <= i < order.len() implies h.has(#[trigger] order[i]) by {
        assert(order.contains(order[i]));
        lemma_reach_has(h, x, order[i]);
    }
    lemma_sum_col_le_held(h, l, order, t);
    assert forall|p: Ptr| order.contains(p) implies l.all.contains(p) by {
        let i = choose|i: int| 0 <= i < order.len() && order[i] == p;
        assert(h.has(order[i]));
    }
    lemma_sum_held_subset(l, order, l.all, t);
    // strong(t) <= m[fl(t)] = sum_col(order) <= sum_held(order) <= sum_held(all) = strong(t) - roots(t)
    assert(h.strong_of(t) <= m[fl(t)]);
    assert(cnt(m, fl(t)) == sum_col(h, order, t));
    assert(h.strong_of(t) == rcnt(l, t) + sum_held(l, l.all, t));
}

/// a chain of held handles starting at a handle the program holds
pub open spec fn held_path(l: Ledger, s: Seq<Ptr>) -> bool {
    s.len() >= 1 && rcnt(l, s[0]) > 0 && forall|i: int| 0 <= i < s.len() - 1 ==> hcnt(l, #[trigger] s[i], s[i + 1]) > 0
}

/// I2: every recorded adoption is visible from the adoptee
pub open spec fn symmetric(h: &Heap) -> bool {
    forall|a: Ptr, b: Ptr| h.has(a) && #[trigger] h.table(a).contains_key(fl(b)) ==> h.has(b) && h.table(b).contains_key(bl(a))
}

/// every traced object other than keys is impossible: with I2, each reachable object is itself a key of the map
pub proof fn lemma_member_is_key(h: &Heap, x: Ptr, m: Map<Link, usize>, order: Seq<Ptr>, v: Ptr, t: Ptr)
    requires
        h.has(x), heap_closed(h), symmetric(h), trace_result(h, x, m, order),
        order.contains(v), h.table(v).contains_key(fl(t)),
    ensures m.contains_key(fl(v)), m.contains_key(fl(t)),
{
    let i = choose|i: int| 0 <= i < order.len() && order[i] == v;
    assert(touched(h, order, t));
    // t is reachable (edge v -> t), and by I2 its table names v as an adopter
    assert(reach(h, x, v));
    lemma_reach_has(h, x, v);
    assert(edge(h, v, t));
    lemma_reach_step(h, x, v, t);
    assert(order.contains(t));
    let j = choose|j: int| 0 <= j < order.len() && order[j] == t;
    assert(h.table(order[j]).contains_key(bl(v)));
    assert(touched(h, order, v));
}

/// a traced object that is not a key of the trace map is the start object: the last edge of any longer path
/// to it would make it a key
pub proof fn lemma_nonkey_traced_is_root(h: &Heap, x: Ptr, m: Map<Link, usize>, order: Seq<Ptr>, p: Ptr)
    requires
        h.has(x), heap_closed(h), symmetric(h), trace_result(h, x, m, order),
        order.contains(p), !m.contains_key(fl(p)),
    ensures p == x,
{
    let sp = choose|sp: Seq<Ptr>| is_path(h, sp) && sp[0] == x && sp.last() == p;
    if sp.len() >= 2 {
        let i = sp.len() - 2;
        assert(edge(h, sp[i], sp[i + 1]));
        let pre = sp.take(i + 1);
        assert(is_path(h, pre)) by {
            assert forall|a: int| 0 <= a < pre.len() - 1 implies edge(h, #[trigger] pre[a], pre[a + 1]) by {
                assert(pre[a] == sp[a] && pre[a + 1] == sp[a + 1]);
                assert(edge(h, sp[a], sp[a + 1]));
            }
        }
        assert(pre[0] == x && pre.last() == sp[i]);
        assert(reach(h, x, sp[i]));
        assert(order.contains(sp[i]));
        lemma_member_is_key(h, x, m, order, sp[i], p);
    }
}

/// an object that records no adoption reaches only itself
pub proof fn lemma_no_forward_only_self(h: &Heap, x: Ptr, q: Ptr)
    requires reach(h, x, q), forall|u: Ptr| !h.table(x).contains_key(fl(u)),
    ensures q == x,
{
    let sq = choose|sq: Seq<Ptr>| is_path(h, sq) && sq[0] == x && sq.last() == q;
    if sq.len() >= 2 {
        assert(edge(h, sq[0int], sq[0int + 1]));
    }
}

/// L.c01: no object that the orphan test hands to group teardown is reachable from a handle the
/// program holds, through any chain of stored handles (recorded or not).
pub proof fn lemma_orphan_unreachable(h: &Heap, l: Ledger, x: Ptr, m: Map<Link, usize>, order: Seq<Ptr>, s: Seq<Ptr>, k: int)
    requires
        h.has(x), heap_closed(h), symmetric(h), ledger_ok(h, l), recorded_le_held(h, l),
        trace_result(h, x, m, order), all_owned(h, m),
        held_path(l, s), 0 <= k < s.len(), forall|i: int| 0 <= i < s.len() ==> h.has(#[trigger] s[i]),
    ensures !m.contains_key(fl(s[k])),
    decreases k,
{
    if m.contains_key(fl(s[k])) {
        let t = s[k];
        lemma_orphan_handles_inside(h, l, x, m, order, t);
        if k == 0 {
            assert(rcnt(l, s[0]) > 0);
        } else {
            let p = s[k - 1];
            assert(hcnt(l, s[k - 1], s[k - 1 + 1]) > 0);
            assert(h.has(p));
            assert(order.contains(p));
            lemma_orphan_unreachable(h, l, x, m, order, s, k - 1);
            // p is traced but not a key: then p records no adoption at all (else I2 makes it a key) ...
            assert(!m.contains_key(fl(p)));
            assert forall|u: Ptr| !h.table(p).contains_key(fl(u)) by {
                if h.table(p).contains_key(fl(u)) { lemma_member_is_key(h, x, m, order, p, u); }
            }
            // ... so p == x is the only traced object (nothing is reachable from it but itself)
            lemma_nonkey_traced_is_root(h, x, m, order, p);
            assert forall|q: Ptr| order.contains(q) implies q == p by {
                lemma_no_forward_only_self(h, x, q);
            }
            // hence the group-owned count of t is what p alone records, which is nothing, so strong(t) == 0,
            // contradicting the handle p holds to t
            assert(sum_col(h, order, t) == 0) by {
                lemma_sum_col_zero(h, order, t, p);
            }
            assert(h.strong_of(t) == 0);
            lemma_key_allocated(h, x, m, order, t);
            lemma_sum_held_ge(l, l.all, p, t);
        }
    }
}

pub proof fn lemma_sum_col_zero(h: &Heap, s: Seq<Ptr>, t: Ptr, p: Ptr)
    requires forall|q: Ptr| s.contains(q) ==> q == p, !h.table(p).contains_key(fl(t)),
    ensures sum_col(h, s, t) == 0,
    decreases s.len(),
{
    if s.len() > 0 {
        assert(s.contains(s.last()));
        assert forall|q: Ptr| s.drop_last().contains(q) implies q == p by {
            let i = choose|i: int| 0 <= i < s.drop_last().len() && s.drop_last()[i] == q;
            assert(s[i] == q);
            assert(s.contains(q));
        }
        lemma_sum_col_zero(h, s.drop_last(), t, p);
    }
}

pub proof fn lemma_sum_held_ge(l: Ledger, s: Seq<Ptr>, p: Ptr, t: Ptr)
    requires s.contains(p),
    ensures sum_held(l, s, t) >= hcnt(l, p, t),
    decreases s.len(),
{
    if s.last() != p {
        let i = choose|i: int| 0 <= i < s.len() && s[i] == p;
        assert(s.drop_last()[i] == p);
        lemma_sum_held_ge(l, s.drop_last(), p, t);
    }
}

/// L.c03 (completeness of the orphan test): if every strong handle to every object reachable from x is a
/// recorded adoption held by an object of that same set, and nothing outside the set records an adoption
/// of a member, then the orphan test accepts the trace map -- so `orphaned_cycle` returns `Some` (its
/// postcondition is an iff) and group teardown destroys every key.
pub proof fn lemma_orphan_complete(h: &Heap, x: Ptr, m: Map<Link, usize>, order: Seq<Ptr>)
    requires
        h.has(x), heap_closed(h), trace_result(h, x, m, order),
        forall|t: Ptr| order.contains(t) ==> #[trigger] h.strong_of(t) == sum_col(h, order, t),
        forall|v: Ptr, a: Ptr| order.contains(v) && #[trigger] h.table(v).contains_key(bl(a)) ==> order.contains(a),
    ensures all_owned(h, m),
{
    assert forall|l: Link| #![trigger m.contains_key(l)] m.contains_key(l) implies h.strong_of(l.ptr) <= m[l] by {
        let t = l.ptr;
        assert(l == fl(t));
        assert(touched(h, order, t));
        let i = choose|i: int| 0 <= i < order.len() && (h.table(#[trigger] order[i]).contains_key(fl(t)) || h.table(order[i]).contains_key(bl(t)));
        assert(order.contains(order[i]));
        if h.table(order[i]).contains_key(fl(t)) {
            assert(reach(h, x, order[i]));
            lemma_reach_has(h, x, order[i]);
            assert(edge(h, order[i], t));
            lemma_reach_step(h, x, order[i], t);
        }
        assert(order.contains(t));
        assert(cnt(m, fl(t)) == sum_col(h, order, t));
    }
}

/// every member of the reachable set other than a linkless x is a key of the trace map, so the map that
/// group teardown receives covers the whole set (needs I2 for x itself)
pub proof fn lemma_members_are_keys(h: &Heap, x: Ptr, m: Map<Link, usize>, order: Seq<Ptr>, v: Ptr)
    requires
        h.has(x), heap_closed(h), symmetric(h), trace_result(h, x, m, order), order.contains(v),
        exists|u: Ptr| h.table(x).contains_key(fl(u)),
    ensures m.contains_key(fl(v)),
{
    let sp = choose|sp: Seq<Ptr>| is_path(h, sp) && sp[0] == x && sp.last() == v;
    if sp.len() >= 2 {
        let i = sp.len() - 2;
        assert(edge(h, sp[i], sp[i + 1]));
        let pre = sp.take(i + 1);
        assert(is_path(h, pre)) by {
            assert forall|a: int| 0 <= a < pre.len() - 1 implies edge(h, #[trigger] pre[a], pre[a + 1]) by {
                assert(pre[a] == sp[a] && pre[a + 1] == sp[a + 1]);
                assert(edge(h, sp[a], sp[a + 1]));
            }
        }
        assert(pre[0] == x && pre.last() == sp[i]);
        assert(reach(h, x, sp[i]));
        assert(order.contains(sp[i]));
        lemma_member_is_key(h, x, m, order, sp[i], v);
    } else {
        assert(v == x);
        let u = choose|u: Ptr| h.table(x).contains_key(fl(u));
        lemma_reach_refl(h, x);
        assert(order.contains(x));
        lemma_member_is_key(h, x, m, order, x, u);
    }
}

// ---- L.c08: the bookkeeping invariant I2 (every record is visible from both ends with the same
// multiplicity) is inductive over the contracts of adopt / unadopt (U3) and of the purge done by a dying
// object (U6), stated here as functions on the view `Ptr -> table`.
pub type Tables = Map<Ptr, Map<Link, usize>>;

pub open spec fn sym_counts(t: Tables) -> bool {
    forall|a: Ptr, b: Ptr| t.contains_key(a) && t.contains_key(b) ==> #[trigger] cnt(t[a], fl(b)) == #[trigger] cnt(t[b], bl(a))
}

pub open spec fn bump(m: Map<Link, usize>, k: Link) -> Map<Link, usize> {
    m.insert(k, (cnt(m, k) + 1) as usize)
}

/// saturating removal of one unit, deleting the entry at zero (the contract of `Links::remove(k, 1)`)
pub open spec fn unbump(m: Map<Link, usize>, k: Link) -> Map<Link, usize> {
    if cnt(m, k) > 1 { m.insert(k, (cnt(m, k) - 1) as usize) } else { m.remove(k) }
}

/// U3's contract for `adopt_unchecked(this = a, other = b)` through two different handles
pub open spec fn adopt_spec(t: Tables, a: Ptr, b: Ptr) -> Tables {
    let t1 = t.insert(a, bump(t[a], fl(b)));
    t1.insert(b, bump(t1[b], bl(a)))
}

pub open spec fn unadopt_spec(t: Tables, a: Ptr, b: Ptr) -> Tables {
    let t1 = t.insert(a, unbump(t[a], fl(b)));
    t1.insert(b, unbump(t1[b], bl(a)))
}

/// U6's contract for the zero-count teardown of x: x's table is gone, every peer loses exactly its records of x
pub open spec fn purge_spec(t: Tables, x: Ptr) -> Tables {
    Map::new(t.dom().remove(x), |p: Ptr| t[p].remove(fl(x)).remove(bl(x)))
}

/// the two halves of adopt / unadopt commute (they touch different keys), so the order in which the code
/// records them does not matter
pub proof fn lemma_adopt_spec_commutes(t: Tables, a: Ptr, b: Ptr)
    requires t.contains_key(a), t.contains_key(b),
    ensures
        adopt_spec(t, a, b) == ({ let t1 = t.insert(b, bump(t[b], bl(a))); t1.insert(a, bump(t1[a], fl(b))) }),
        unadopt_spec(t, a, b) == ({ let t1 = t.insert(b, unbump(t[b], bl(a))); t1.insert(a, unbump(t1[a], fl(b))) }),
{
    assert(fl(b) != bl(a));
    let t1 = t.insert(b, bump(t[b], bl(a)));
    let r1 = t1.insert(a, bump(t1[a], fl(b)));
    let s1 = t.insert(a, bump(t[a], fl(b)));
    if a == b {
        assert(bump(t1[a], fl(b)) =~= bump(s1[b], bl(a)));
    }
    assert(r1 =~= adopt_spec(t, a, b));
    let u1 = t.insert(b, unbump(t[b], bl(a)));
    let r2 = u1.insert(a, unbump(u1[a], fl(b)));
    let v1 = t.insert(a, unbump(t[a], fl(b)));
    if a == b {
        assert(unbump(u1[a], fl(b)) =~= unbump(v1[b], bl(a)));
    }
    assert(r2 =~= unadopt_spec(t, a, b));
}

pub proof fn lemma_cnt_bump(m: Map<Link, usize>, k: Link, j: Link)
    requires cnt(m, k) < usize::MAX,
    ensures cnt(bump(m, k), j) == (if j == k { cnt(m, k) + 1 } else { cnt(m, j) }),
{
}

pub proof fn lemma_cnt_unbump(m: Map<Link, usize>, k: Link, j: Link)
    ensures cnt(unbump(m, k), j) == (if j == k { if cnt(m, k) >= 1 { (cnt(m, k) - 1) as nat } else { 0 } } else { cnt(m, j) }),
{
}

pub proof fn lemma_adopt_preserves_symmetry(t: Tables, a: Ptr, b: Ptr)
    requires sym_counts(t), t.contains_key(a), t.contains_key(b), cnt(t[a], fl(b)) < usize::MAX,
    ensures sym_counts(adopt_spec(t, a, b)),
{
    let t1 = t.insert(a, bump(t[a], fl(b)));
    let t2 = adopt_spec(t, a, b);
    assert(cnt(t[b], bl(a)) == cnt(t[a], fl(b)));
    assert forall|p: Ptr, q: Ptr| t2.contains_key(p) && t2.contains_key(q) implies #[trigger] cnt(t2[p], fl(q)) == #[trigger] cnt(t2[q], bl(p)) by {
        assert(t.contains_key(p) && t.contains_key(q));
        assert(cnt(t[p], fl(q)) == cnt(t[q], bl(p)));
        // kinds differ, so bumping a Forward key never changes a Backward count and vice versa
        assert(fl(q) != bl(a) && bl(p) != fl(b));
        lemma_cnt_bump(t[a], fl(b), fl(q));
        lemma_cnt_bump(t[a], fl(b), bl(p));
        lemma_cnt_bump(t1[b], bl(a), fl(q));
        lemma_cnt_bump(t1[b], bl(a), bl(p));
        if fl(q) == fl(b) { assert(q == b); }
        if bl(p) == bl(a) { assert(p == a); }
    }
}

pub proof fn lemma_unadopt_preserves_symmetry(t: Tables, a: Ptr, b: Ptr)
    requires sym_counts(t), t.contains_key(a), t.contains_key(b),
    ensures sym_counts(unadopt_spec(t, a, b)),
{
    let t1 = t.insert(a, unbump(t[a], fl(b)));
    let t2 = unadopt_spec(t, a, b);
    assert(cnt(t[b], bl(a)) == cnt(t[a], fl(b)));
    assert forall|p: Ptr, q: Ptr| t2.contains_key(p) && t2.contains_key(q) implies #[trigger] cnt(t2[p], fl(q)) == #[trigger] cnt(t2[q], bl(p)) by {
        assert(t.contains_key(p) && t.contains_key(q));
        assert(cnt(t[p], fl(q)) == cnt(t[q], bl(p)));
        assert(fl(q) != bl(a) && bl(p) != fl(b));
        lemma_cnt_unbump(t[a], fl(b), fl(q));
        lemma_cnt_unbump(t[a], fl(b), bl(p));
        lemma_cnt_unbump(t1[b], bl(a), fl(q));
        lemma_cnt_unbump(t1[b], bl(a), bl(p));
        if fl(q) == fl(b) { assert(q == b); }
        if bl(p) == bl(a) { assert(p == a); }
    }
}

/// after the purge no table names the destroyed object, and I2 still holds for the rest of the heap
pub proof fn lemma_purge_preserves_symmetry(t: Tables, x: Ptr)
    requires sym_counts(t), t.contains_key(x),
    ensures
        sym_counts(purge_spec(t, x)),
        !purge_spec(t, x).contains_key(x),
        forall|p: Ptr| purge_spec(t, x).contains_key(p) ==> !(#[trigger] purge_spec(t, x)[p]).contains_key(fl(x)) && !purge_spec(t, x)[p].contains_key(bl(x)),
{
    let t2 = purge_spec(t, x);
    assert forall|p: Ptr, q: Ptr| t2.contains_key(p) && t2.contains_key(q) implies #[trigger] cnt(t2[p], fl(q)) == #[trigger] cnt(t2[q], bl(p)) by {
        assert(cnt(t[p], fl(q)) == cnt(t[q], bl(p)));
        assert(fl(q) != fl(x) && fl(q) != bl(x) && bl(p) != bl(x) && bl(p) != fl(x)) by {
            if fl(q) == fl(x) { assert(q == x); }
            if bl(p) == bl(x) { assert(p == x); }
        }
    }
}

// ---- L.c06: the handle ledger (strong(t) = handles held by the program + handles stored in values) is
// inductive over the handle operations, given their contracts (U1/U7: exactly one counter moves by
// exactly one; U3/U6 frames: adopt, unadopt and collections of other objects move no counter).
pub open spec fn ledger_ok_m(sm: Map<Ptr, nat>, l: Ledger) -> bool {
    &&& l.all.no_duplicates()
    &&& forall|p: Ptr| l.all.contains(p) <==> sm.contains_key(p)
    &&& forall|t: Ptr| sm.contains_key(t) ==> #[trigger] sm[t] == rcnt(l, t) + sum_held(l, l.all, t)
}

pub open spec fn set_root(l: Ledger, t: Ptr, n: nat) -> Ledger {
    Ledger { all: l.all, roots: l.roots.insert(t, n), held: l.held }
}

pub open spec fn set_held(l: Ledger, p: Ptr, t: Ptr, n: nat) -> Ledger {
    Ledger { all: l.all, roots: l.roots, held: l.held.insert((p, t), n) }
}

pub proof fn lemma_sum_held_set_root(l: Ledger, s: Seq<Ptr>, t: Ptr, n: nat, u: Ptr)
    ensures sum_held(set_root(l, t, n), s, u) == sum_held(l, s, u),
    decreases s.len(),
{
    if s.len() > 0 {
        lemma_sum_held_set_root(l, s.drop_last(), t, n, u);
        assert(hcnt(set_root(l, t, n), s.last(), u) == hcnt(l, s.last(), u));
    }
}

/// changing the number of handles to t stored in p changes the sum for t by exactly that difference when p
/// occurs once in the enumeration, and leaves every other target's sum alone
pub proof fn lemma_sum_held_set_held(l: Ledger, s: Seq<Ptr>, p: Ptr, t: Ptr, n: nat, u: Ptr)
    requires s.no_duplicates(),
    ensures
        u != t ==> sum_held(set_held(l, p, t, n), s, u) == sum_held(l, s, u),
        !s.contains(p) ==> sum_held(set_held(l, p, t, n), s, t) == sum_held(l, s, t),
        s.contains(p) ==> sum_held(set_held(l, p, t, n), s, t) + hcnt(l, p, t) == sum_held(l, s, t) + n,
    decreases s.len(),
{
    let l2 = set_held(l, p, t, n);
    if s.len() > 0 {
        let sp = s.drop_last();
        let q = s.last();
        assert(sp.no_duplicates());
        lemma_sum_held_set_held(l, sp, p, t, n, u);
        assert(hcnt(l2, q, u) == (if q == p && u == t { n } else { hcnt(l, q, u) }));
        assert(s.contains(p) <==> (sp.contains(p) || q == p)) by {
            if sp.contains(p) { let i = choose|i: int| 0 <= i < sp.len() && sp[i] == p; assert(s[i] == p); }
            if s.contains(p) && q != p { let i = choose|i: int| 0 <= i < s.len() && s[i] == p; assert(sp[i] == p); }
            if q == p { assert(s[s.len() - 1] == p); }
        }
        if q == p {
            assert(!sp.contains(p)) by {
                if sp.contains(p) { let i = choose|i: int| 0 <= i < sp.len() && sp[i] == p; assert(s[i] == s[s.len() - 1]); }
            }
        }
    }
}

/// the program gains (d = +1: clone, upgrade, new) or gives up (d = -1: drop of a live handle) a handle to t
pub proof fn lemma_ledger_program_handle(sm: Map<Ptr, nat>, l: Ledger, t: Ptr, gain: bool)
    requires ledger_ok_m(sm, l), sm.contains_key(t), !gain ==> rcnt(l, t) >= 1,
    ensures
        gain ==> ledger_ok_m(sm.insert(t, sm[t] + 1), set_root(l, t, rcnt(l, t) + 1)),
        !gain ==> sm[t] >= 1 && ledger_ok_m(sm.insert(t, (sm[t] - 1) as nat), set_root(l, t, (rcnt(l, t) - 1) as nat)),
{
    let n: nat = if gain { rcnt(l, t) + 1 } else { (rcnt(l, t) - 1) as nat };
    let l2 = set_root(l, t, n);
    let sm2 = if gain { sm.insert(t, sm[t] + 1) } else { sm.insert(t, (sm[t] - 1) as nat) };
    assert forall|u: Ptr| sm2.contains_key(u) implies #[trigger] sm2[u] == rcnt(l2, u) + sum_held(l2, l2.all, u) by {
        lemma_sum_held_set_root(l, l.all, t, n, u);
        assert(sm[u] == rcnt(l, u) + sum_held(l, l.all, u));
    }
    assert(forall|p: Ptr| l2.all.contains(p) <==> sm2.contains_key(p));
}

/// a handle to t that the program holds is moved into the value of a live object p (store), or back out
/// (take): no counter changes (it is the same handle), the ledger just re-attributes it
pub proof fn lemma_ledger_store_take(sm: Map<Ptr, nat>, l: Ledger, p: Ptr, t: Ptr, store: bool)
    requires
        ledger_ok_m(sm, l), sm.contains_key(t), sm.contains_key(p),
        store ==> rcnt(l, t) >= 1, !store ==> hcnt(l, p, t) >= 1,
    ensures
        store ==> ledger_ok_m(sm, set_held(set_root(l, t, (rcnt(l, t) - 1) as nat), p, t, hcnt(l, p, t) + 1)),
        !store ==> ledger_ok_m(sm, set_held(set_root(l, t, rcnt(l, t) + 1), p, t, (hcnt(l, p, t) - 1) as nat)),
{
    let r: nat = if store { (rcnt(l, t) - 1) as nat } else { rcnt(l, t) + 1 };
    let n: nat = if store { hcnt(l, p, t) + 1 } else { (hcnt(l, p, t) - 1) as nat };
    let l1 = set_root(l, t, r);
    let l2 = set_held(l1, p, t, n);
    assert(l.all.contains(p));
    assert forall|u: Ptr| sm.contains_key(u) implies #[trigger] sm[u] == rcnt(l2, u) + sum_held(l2, l2.all, u) by {
        lemma_sum_held_set_root(l, l.all, t, r, u);
        lemma_sum_held_set_held(l1, l1.all, p, t, n, u);
        assert(hcnt(l1, p, t) == hcnt(l, p, t));
        assert(sm[u] == rcnt(l, u) + sum_held(l, l.all, u));
    }
}

} // verus!

// ---- heap reader shim (verus/heap.rs): "memory as the trace sees it".  X4 rewrites `N.as_ref()` into
// `heap.at(&N)`; the validity of that dereference becomes the precondition `heap.has(N.ptr)`.
verus! {

pub struct TableCell { pub t: Links }

impl TableCell {
    pub fn borrow(&self) -> (r: &Links)
        ensures *r == self.t,
    {
        &self.t
    }
}

pub struct Obj { pub strong_v: usize, pub weak_v: usize, pub cell: TableCell }

impl Obj {
    pub fn links(&self) -> (r: &TableCell)
        ensures *r == self.cell,
    {
        &self.cell
    }

    pub fn strong(&self) -> (r: usize)
        ensures r == self.strong_v,
    {
        self.strong_v
    }
}

pub struct Heap { pub objs: HashMap<Ptr, Obj> }

impl Heap {
    pub open spec fn has(&self, p: Ptr) -> bool { self.objs@.contains_key(p) }
    pub open spec fn table(&self, p: Ptr) -> Map<Link, usize> { self.objs@[p].cell.t@ }
    pub open spec fn strong_of(&self, p: Ptr) -> usize { self.objs@[p].strong_v }

    pub fn at(&self, l: &Link) -> (r: &Obj)
        requires self.has(l.ptr),
        ensures *r == self.objs@[l.ptr],
    {
        proof { axiom_key_models(); }
        self.objs.get(&l.ptr).unwrap()
    }
}

} // verus!

// ---- mutable heap shim (verus/mheap.rs): "memory as adopt/unadopt see it".  Hand-written and verified as
// stated (real HashMap operations under vstd's specifications); nothing here is cactusref code.
// X10 rewrites `H.inner().links().borrow_mut()` into `heap.borrow_mut(&H.ptr)`: the object's table is taken
// OUT of the model while the RefMut guard lives and put back by `release` where Rust drops the guard.
// Borrowing a table that is out is what makes the real RefCell panic ("already borrowed"); here it is the
// precondition `!borrowed(p)`, so "no internal borrow conflict" is a proof obligation, not an assumption.
// A handle is an allocation address plus the handle's own address (`hid`): X3 rewrites the handle-identity
// test `ptr::eq(this, other)` into `this.hid == other.hid`.
verus! {

pub struct RcH2 { pub ptr: Ptr, pub hid: usize }

// `cnts` is the (strong, weak) counter pair of every object: ghost, because the extracted functions are not
// supposed to touch counters at all; X12 rewrites `H.inner().inc_strong()` etc. into the shim methods below so
// that a change which does touch one FAILS the frame clause `cnts unchanged` instead of being undecided.
pub struct MHeap { pub tabs: HashMap<Ptr, Links>, pub out: Ghost<Set<Ptr>>, pub cnts: Ghost<Map<Ptr, (int, int)>> }

impl MHeap {
    pub open spec fn wf(&self) -> bool { forall|p: Ptr| !(self.tabs@.contains_key(p) && self.out@.contains(p)) }
    pub open spec fn has(&self, p: Ptr) -> bool { self.tabs@.contains_key(p) || self.out@.contains(p) }
    pub open spec fn borrowed(&self, p: Ptr) -> bool { self.out@.contains(p) }
    pub open spec fn table(&self, p: Ptr) -> Map<Link, usize> { self.tabs@[p]@ }
    /// the tables of all objects whose table is not currently borrowed
    pub open spec fn view(&self) -> Tables { Map::new(self.tabs@.dom(), |p: Ptr| self.tabs@[p]@) }
    /// adoption counts stay below usize::MAX (implied by the handle ledger: recorded <= held <= strong < MAX)
    pub open spec fn counts_fit(&self) -> bool {
        forall|p: Ptr, l: Link| self.tabs@.contains_key(p) ==> #[trigger] cnt(self.table(p), l) < usize::MAX
    }

    pub fn borrow_mut(&mut self, p: &Ptr) -> (r: Links)
        requires old(self).wf(), old(self).has(*p), !old(self).borrowed(*p),
        ensures r@ == old(self).table(*p), final(self).tabs@ == old(self).tabs@.remove(*p), final(self).out@ == old(self).out@.insert(*p), final(self).wf(), final(self).cnts@ == old(self).cnts@,
    {
        proof { axiom_key_models(); }
        let r = self.tabs.remove(p).unwrap();
        proof { self.out@ = self.out@.insert(*p); }
        r
    }

    pub fn release(&mut self, p: &Ptr, t: Links)
        requires old(self).wf(), old(self).borrowed(*p),
        ensures final(self).tabs@ == old(self).tabs@.insert(*p, t), final(self).out@ == old(self).out@.remove(*p), final(self).wf(), final(self).cnts@ == old(self).cnts@,
    {
        proof { axiom_key_models(); }
        self.tabs.insert(*p, t);
        proof { self.out@ = self.out@.remove(*p); }
    }

    pub fn bump_counter(&mut self, p: &Ptr, Ghost(ds): Ghost<int>, Ghost(dw): Ghost<int>)
        ensures final(self).tabs@ == old(self).tabs@, final(self).out@ == old(self).out@,
            final(self).cnts@ == old(self).cnts@.insert(*p, (old(self).cnts@[*p].0 + ds, old(self).cnts@[*p].1 + dw)),
    {
        proof { self.cnts@ = self.cnts@.insert(*p, (self.cnts@[*p].0 + ds, self.cnts@[*p].1 + dw)); }
    }
    pub fn inc_strong(&mut self, p: &Ptr)
        ensures final(self).tabs@ == old(self).tabs@, final(self).out@ == old(self).out@, final(self).cnts@ == old(self).cnts@.insert(*p, (old(self).cnts@[*p].0 + 1, old(self).cnts@[*p].1)),
    { self.bump_counter(p, Ghost(1), Ghost(0)); }
    pub fn dec_strong(&mut self, p: &Ptr)
        ensures final(self).tabs@ == old(self).tabs@, final(self).out@ == old(self).out@, final(self).cnts@ == old(self).cnts@.insert(*p, (old(self).cnts@[*p].0 - 1, old(self).cnts@[*p].1)),
    { self.bump_counter(p, Ghost(-1), Ghost(0)); }
    pub fn inc_weak(&mut self, p: &Ptr)
        ensures final(self).tabs@ == old(self).tabs@, final(self).out@ == old(self).out@, final(self).cnts@ == old(self).cnts@.insert(*p, (old(self).cnts@[*p].0, old(self).cnts@[*p].1 + 1)),
    { self.bump_counter(p, Ghost(0), Ghost(1)); }
    pub fn dec_weak(&mut self, p: &Ptr)
        ensures final(self).tabs@ == old(self).tabs@, final(self).out@ == old(self).out@, final(self).cnts@ == old(self).cnts@.insert(*p, (old(self).cnts@[*p].0, old(self).cnts@[*p].1 - 1)),
    { self.bump_counter(p, Ghost(0), Ghost(-1)); }
}

} // verus!

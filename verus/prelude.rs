// ---- prelude (verus/prelude.rs): imports, address abstraction, trusted std specs, heap reader shim.
// Everything here is hand-written and TRUSTED or proved as stated; nothing here is cactusref code.
#![feature(allocator_api)]
#![allow(unused_imports, dead_code, unused_variables, unused_mut)]
use vstd::prelude::*;
use std::collections::hash_map::{Entry, Iter};
use core::alloc::Allocator;
use core::num::NonZeroUsize;
use core::hash::{Hash, Hasher};
use vstd::std_specs::hash::*;
use vstd::std_specs::iter::IteratorSpec;

// X2: the crate's table aliases (crate::hash) are mapped to std's tables under vstd's specifications.
pub type HashMap<K, V> = std::collections::HashMap<K, V>;
pub type HashSet<T> = std::collections::HashSet<T>;

verus! {

// X1: `NonNull<RcBox<T>>` is abstracted to an opaque address.
#[derive(Clone, Copy, PartialEq, Eq, Hash, Structural)]
pub struct Ptr { pub addr: usize }

// ---- trusted specifications of std functions that vstd does not specify
pub assume_specification<'a, T: Copy>[ Option::<&'a T>::copied ](o: Option<&'a T>) -> (r: Option<T>)
    ensures r == (match o { Some(x) => Some(*x), None => None });

pub assume_specification<'a, K, V: Default>[ Entry::<'a, K, V>::or_default ](entry: Entry<'a, K, V>) -> (value: &'a mut V)
    ensures entry.value() is Some ==> *value == entry.value()->0,
            entry.value() is None ==> call_ensures(V::default, (), *value),
            entry.final_value() == Some(*final(value));

pub assume_specification<'a, K, V, A: Allocator, F: FnOnce(&mut V)>[ Entry::<'a, K, V, A>::and_modify ]
        (entry: Entry<'a, K, V, A>, f: F) -> (r: Entry<'a, K, V, A>)
    requires entry.value() is Some ==> forall|mr: &mut V| *mr == entry.value()->0 ==> call_requires(f, (mr,)),
    ensures  r.spec_key() == entry.spec_key(),
             entry.value() is None ==> r.value() is None,
             entry.value() is Some ==> r.value() is Some && exists|mr: &mut V|
                 #![trigger call_ensures(f, (mr,), ())]
                 *mr == entry.value()->0 && *final(mr) == r.value()->0 && call_ensures(f, (mr,), ()),
             r.final_value() == entry.final_value();

// Assumed here: `Link`'s `Hash` impl is consistent with its `Eq` impl (the `Eq` impl itself is verified below),
// and `Ptr` (an address) is a lawful hash-table key.  The executable half of the first assumption is discharged
// outside Verus by the complete Kani harness `u2_link_hash_agrees_with_eq` (all addresses, all kinds: `==` is an
// equivalence, and equal links feed identical input to any hasher); what stays trusted is that std's/hashbrown's
// table is a map for such a key and that the hasher is deterministic.
#[verifier::external_body]
pub proof fn axiom_key_models()
    ensures obeys_key_model::<Link>(), obeys_key_model::<Ptr>(),
{
}

} // verus!

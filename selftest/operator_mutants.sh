run() { # name file sed-expr prop only
  D=$(mktemp -d /var/tmp/mini-XXXX); rsync -a --exclude target --exclude .git /repo/ $D/
  python3 - "$D/$2" "$3" "$4" <<'PY'
import sys
p,old,new=sys.argv[1],sys.argv[2],sys.argv[3]
s=open(p).read()
assert s.count(old)>=1, ("pattern not found", old)
s=s.replace(old,new,1); open(p,'w').write(s)
PY
  (cd $D && cargo build --offline -q 2>&1 | grep -E "^error" | head -2)
  r=$(VERIF_REPO=$D VERIF_MEM_BUDGET_GB=30 /verif/bin/check $5 --only $6 2>&1 | grep -E "^FAILED obligation|^== C" | sed -E 's/FAILED obligation (\S+).*/\1/' | tr '\n' ' ')
  echo "$1 | $r" | cut -c1-260
  rm -rf $D
}
run orphan-ge src/cycle.rs "item.strong() > cycle_owned_refs);" "item.strong() >= cycle_owned_refs);" C01 orphaned_cycle,u4_orphan
run upgrade-ignores-sentinel src/rc.rs "        if inner.is_dead() {
            None" "        if inner.strong() == 0 {
            None" C05 u7_upgrade
run remove-keeps-zero src/link.rs "let remaining_strong_count = count.checked_sub(strong).and_then(NonZeroUsize::new);" "let remaining_strong_count = count.checked_sub(strong).map(|c| NonZeroUsize::new(c.max(1)).unwrap());" C08 Links::remove,u3_unadopt
run weak-drop-le1 src/rc.rs "        if inner.weak() == 0 {
            unsafe {
                // SAFETY: \`T\` is \`Sized\`, which means \`Layout::for_value_raw\`
                // is always safe to call.
                let layout = Layout::for_value_raw(self.ptr.as_ptr());" "        if inner.weak() <= 1 {
            unsafe {
                // SAFETY: \`T\` is \`Sized\`, which means \`Layout::for_value_raw\`
                // is always safe to call.
                let layout = Layout::for_value_raw(self.ptr.as_ptr());" C04 u7_weak_drop
run adopt-ptr-eq-allocation src/adopt.rs "    unsafe fn adopt_unchecked(this: &Self, other: &Self) {
        // Self-adoptions have no effect.
        if ptr::eq(this, other) {" "    unsafe fn adopt_unchecked(this: &Self, other: &Self) {
        // Self-adoptions have no effect.
        if Rc::ptr_eq(this, other) {" C08 u3_adopt
run clone-no-inc src/rc.rs "    fn clone(&self) -> Rc<T> {
        self.inner().inc_strong();" "    fn clone(&self) -> Rc<T> {
        if self.inner().strong() > 1 { self.inner().inc_strong(); }" C06 u7_handle_creation
